"""C05 - per-connection order, whole frames, gap-free sequence numbers."""
from vlib.mgen import CLOSE, CONNECT, DISCONNECT, FAULT, OPEN, PUB, READY, SETNAME, STEP, SUB, Profile
from vlib.simcheck import SimCheck

RULE = ("Hypothesis-generated histories (profile 'ordering': bursts from several publishers, payload sizes 0/small/65535, "
        "acknowledged control traffic, unwritable subscribers producing FAILED_MESSAGE, clock jumps producing TIMING/TRAFFIC/"
        "ACTIVE_CLIENTS on the same connections; and profile 'ordering-faults': the same while writes to other subscribers fail "
        "in the middle of a fan-out - peer gone with EPIPE/ECONNRESET/delayed failure, injected failure at a byte offset) run on the real manager over the in-memory network. Oracles: every byte stream "
        "the manager wrote parses into whole frames with nothing left over after every round; msg_count is 1,2,3,... per connection "
        "over all frame kinds; per receiver the messages of one sender arrive in send order; any two receivers see their common "
        "messages in the same relative order (manager-originated messages with a payload - log records at debug/info level, notices - "
        "included, identified by their bytes). Non-trivial = a connection that received >=3 frames of >=2 kinds, or two receivers "
        "sharing >=2 messages from >=2 senders; distinct = (kinds multiset class, count class) / (common count, sender count).")

ORDERING = Profile(
    name="ordering",
    oracles={"order", "framing", "routing"},
    weights={STEP: 8, PUB: 16, SUB: 6, CONNECT: 2, OPEN: 1, DISCONNECT: 1, CLOSE: 1, READY: 1, SETNAME: 1},
    types=[1234, 5000, 8, 80, 33, 32, 30, 31, 0, 2, 9999, 10000, -1, 42, 45, 44],
    sizes=[0, 8, 65535, 1, 64, 4096, 7],
    max_pending_pubs=12,
    writable_all_bias=2,
    p_logger=4,
)


# the same oracles while writes to *other* connections fail in the middle of a fan-out (peer gone, injected
# failure at a byte offset): every surviving connection must still see whole frames, gap-free numbers, order
ORDERING_FAULTS = Profile(
    name="ordering-faults",
    oracles={"order", "framing", "routing"},
    weights={STEP: 8, PUB: 16, SUB: 6, CONNECT: 3, OPEN: 2, DISCONNECT: 1, CLOSE: 5, FAULT: 2, READY: 1},
    types=[1234, 5000, 33, 8, 32, 0, 9999],
    sizes=[0, 8, 64, 4096, 1, 7],
    close_modes=["epipe", "reset", "first-ok", "silent"],
    max_pending_pubs=10,
    writable_all_bias=2,
    p_logger=4,
    dts=[0.0],
    max_conns=8,
)


def nontrivial(w, res):
    for s in w.shapes:
        if s[0] == "pair-order":
            res.shape(*s)
    for i, frames in w.frames_per_conn.items():
        if frames["n"] >= 3 and len(frames["kinds"]) >= 2:
            res.shape("conn", tuple(sorted(frames["kinds"]))[:6], min(frames["n"], 40) // 4)
            res.count("conns-nontrivial")


CHECK = SimCheck(
    "C05", [ORDERING, ORDERING, ORDERING_FAULTS],
    {"ordering": [{"timecode": False, "timing": True, "log": "error"}, {"timecode": True, "timing": True, "log": "info"},
                  {"timecode": False, "timing": False, "log": "silent"}, {"timecode": False, "timing": True, "log": "debug"}],
     "ordering-faults": [{"timecode": False, "timing": True, "log": "silent"}, {"timecode": True, "timing": False, "log": "silent"}]},
    RULE, ["per-sender order uses the harness' global publish counter, which increases in send order on each connection"],
    quick=(700, 60), thorough=(15000, 160), nontrivial=nontrivial,
)
run, replay_trace, shard = CHECK.run, CHECK.replay_trace, CHECK.shard
