"""C19 - control frames are acknowledged exactly once, in order, to their sender."""
from vlib.mgen import CLOSE, CONNECT, DISCONNECT, FAULT, OPEN, PUB, READY, SETNAME, STEP, SUB, Profile
from vlib.simcheck import SimCheck

RULE = ("Hypothesis-generated histories (profile 'control': handshakes CONNECT / CONNECT_V2+CONNECT / CONNECT_V2 incl. refused "
        "ones, SUBSCRIBE/UNSUBSCRIBE/PAUSE/RESUME incl. repeats and no-ops and individual requests while subscribed to all, data "
        "frames, MODULE_READY, CLIENT_SET_NAME, DISCONNECT, 0-3 logger modules, generated service order; a second profile adds loggers and "
        "requesters whose connection fails when the ACK or its copy is written). After every manager "
        "round, per connection: the ACKNOWLEDGE frames received (type 2, source 0, no payload) are exactly one per ack-worthy "
        "frame of that connection processed in that round, addressed to the module's id, none for anything else; every logger's "
        "sequence of ACK copies equals the processing order of acknowledged requests since it became a logger (its own requests "
        "may show once or twice: answer + copy). Non-trivial = a round in which >=2 modules had control frames served, or a no-op "
        "request; distinct = (#acks in round class, #loggers, no-op kind).")

CONTROL = Profile(
    name="control",
    oracles={"ack", "framing"},
    weights={STEP: 10, SUB: 16, PUB: 4, CONNECT: 6, OPEN: 3, DISCONNECT: 2, CLOSE: 1, READY: 2, SETNAME: 2},
    p_logger=3,
    clash_ids=True,
    max_conns=7,
)


# the same accounting while writes of ACKs / ACK copies fail (a logger or a requester that is already gone:
# EPIPE / ECONNRESET / first write succeeds): the remaining loggers must still get their copy
CONTROL_FAULTS = Profile(
    name="control-faults",
    oracles={"ack", "framing"},
    weights={STEP: 10, SUB: 16, PUB: 3, CONNECT: 6, OPEN: 3, DISCONNECT: 2, CLOSE: 6, READY: 1, SETNAME: 1},
    p_logger=2,
    close_modes=["epipe", "reset", "first-ok", "silent"],
    dts=[0.0],
    max_conns=8,
)


def nontrivial(w, res):
    for s in w.shapes:
        if s[0] in ("ack-round", "noop"):
            res.shape(*s)


def extra(ctx):
    """Small-scope enumeration shared with C01: every sequence of <= 3 (thorough: 4) subscription-control / publish
    operations by two clients next to a logger, checked with the acknowledgement oracle."""
    from checks.c01 import shard_enum
    from vlib.common import derive_seed, run_shards

    depth = 3 if ctx.quick else 4
    res = run_shards(shard_enum, [(i, 16, depth, {"ack", "framing"}, "C19", False) for i in range(16)])
    res.notes.append(f"sub-domain enumerated completely: every sequence of <= {depth} subscription-control / publish operations "
                     "(16 symbols, 2 acting clients + a logger module), ACK accounting after every round")
    res.merge(run_shards(shard_pool, [(derive_seed(ctx.seed, 900 + i), ctx.scale(1, 12)) for i in range(4)]))
    sizes = (300, 70) if ctx.quick else (300, 70, 1100, 5000)
    res.merge(run_shards(shard_many, [(tc, n, kinds) for tc in (False, True) for n in sizes
                                      for kinds in (["SUBSCRIBE"], ["SUBSCRIBE", "RESUME"])]))
    res.notes.append("one module holding 70 ... 300 (thorough: 5000) distinct individual subscriptions: every SUBSCRIBE / RESUME for a further "
                     "type, and later PAUSE / RESUME / UNSUBSCRIBE requests, acknowledged exactly once with a copy at the logger")
    res.notes.append("full dynamic-id pool next to a logger: all 100 dynamic ids assigned, further dynamic requests (refused: no "
                     "acknowledgement, no logger copy), departures and re-use; ACK accounting (requester and logger copies) after every round")
    return res


def many_subs_ops(n, kinds):
    """One module issues n subscription requests for n DISTINCT message types (then pauses / resumes / unsubscribes some of
    them), next to a monitor and a logger: every request is acknowledged, however many subscriptions the module already holds."""
    from vlib.monitors import monitor_setup

    ops = list(monitor_setup()) + [{"op": "_drain"}, {"op": "open"},
                                   {"op": "connect", "c": 2, "ver": "v2v1", "id": 20, "logger": 0, "daemon": 0, "multi": 0, "name": "many", "pid": 20},
                                   {"op": "_drain"}]
    for k in range(n):
        ops.append({"op": "sub", "c": 2, "kind": kinds[k % len(kinds)], "type": 3000 + k})
        if k % 8 == 7:
            ops.append({"op": "_drain"})
    ops.append({"op": "_drain"})
    for k in range(0, n, 37):
        ops.append({"op": "sub", "c": 2, "kind": ["PAUSE", "RESUME", "UNSUBSCRIBE", "SUBSCRIBE"][k % 4], "type": 3000 + k})
    ops.append({"op": "_drain"})
    return ops


def shard_many(tc, n, kinds):
    from vlib.common import Result, Violation
    from vlib.script import run_script

    res = Result()
    cfg = {"timecode": tc, "timing": False, "log": "silent"}
    ops = many_subs_ops(n, kinds)
    try:
        run_script(cfg, ops, {"ack", "framing"}, "C19", res, harvest=lambda w, r: None)
    except Violation as e:
        res.add_finding(e.key, e.what, {"kind": "pool", "cfg": cfg, "ops": ops})
    res.evaluations += 1
    res.count("many-distinct-subscriptions-cases")
    res.count("many-distinct-subscriptions-requests", n)
    res.shape("many-subs", tc, n >> 6, tuple(kinds))
    return res


def shard_pool(seed, n):
    from hypothesis import strategies as st

    from vlib.common import Result, Violation, hyp_run
    from vlib.monitors import monitor_setup
    from vlib.script import pool_cycle_ops, run_script

    res = Result()

    def body(v):
        tc, refusals, cycles = v
        cfg = {"timecode": tc, "timing": True, "log": "silent"}
        ops, must = pool_cycle_ops(monitor_setup(), 2, [], refusals, cycles)
        try:
            run_script(cfg, ops, {"ack", "framing", "identity"}, "C19", res, harvest=lambda w, r: None)
        except Violation as e:
            raise Violation(e.key, e.what, {"kind": "pool", "cfg": cfg, "ops": ops})
        res.count("full-pool-histories")
        res.shape("pool", tc, refusals, len(cycles))

    cyc = st.tuples(st.sampled_from([0, 0, 1, 5, 50]), st.integers(0, 2), st.sampled_from([0, 1, 2]))
    hyp_run(body, st.tuples(st.booleans(), st.integers(1, 3), st.lists(cyc, max_size=3)), seed, n, res)
    return res


CHECK = SimCheck(
    "C19", [CONTROL, CONTROL, CONTROL_FAULTS],
    {"control": [{"timecode": False, "timing": True, "log": "error"}, {"timecode": True, "timing": False, "log": "silent"},
                 {"timecode": False, "timing": True, "log": "info"}],
     "control-faults": [{"timecode": False, "timing": True, "log": "silent"}, {"timecode": True, "timing": False, "log": "silent"}]},
    RULE, ["because one frame per connection is served per round, checking ACK counts after every round pins the order of acknowledgements on each connection"],
    quick=(900, 60), thorough=(20000, 150), nontrivial=nontrivial, extra=extra,
)
def _replay_extra(tr):
    from checks.c01 import run_enum_script

    if tr.get("kind") == "pool":
        from vlib.script import run_script

        run_script(tr["cfg"], tr["ops"], {"ack", "framing", "identity"}, "C19")
        return
    run_enum_script(tr["cfg"], tr["ops"], None, {"ack", "framing"}, "C19")


CHECK.replay_extra = _replay_extra
run, replay_trace, shard = CHECK.run, CHECK.replay_trace, CHECK.shard
