"""C06 - module identity: unique ids, sound dynamic ids, options honoured."""
from __future__ import annotations

import itertools
import time

from hypothesis import strategies as st

from vlib import mgen
from vlib import proto as P
from vlib.common import HarnessError, Result, RunContext, Violation, conclude, derive_seed, hyp_run, run_shards
from vlib.mgen import CLOSE, CONNECT, DISCONNECT, OPEN, PUB, READY, SETNAME, STEP, SUB, Profile
from vlib.monitors import monitor_setup
from vlib.simcheck import SIM_ASSUME
from vlib.world import World

RULE = ("Four generators on the real manager over the in-memory network. (1) Hypothesis histories (profile 'identity'): connects and "
        "disconnects of up to 8 live modules over requested id (0, in range, 1, 99, 100, 101, 199, 200, -1, 32767, ids held by live "
        "modules) x allow-multiple x name (empty/shared/distinct) x protocol (CONNECT only / CONNECT_V2 / CONNECT_V2+CONNECT), with "
        "directed probes. (2) exhaustive pairs of consecutive connects over (11 id classes x multi x 3 names x 2 protocols)^2 = 17424 "
        "cases. (3) generated churn of >=110 dynamic connects with departures (wraps the dynamic-id counter) and a fill of all 100 "
        "dynamic ids plus 1-3 requests against the full pool, then generated cycles in which the k-th most recently assigned holder "
        "leaves and a new dynamic request must be accepted. (4) the public entry points Client.connect and client_context with generated keyword arguments on "
        "a real pyrtma.Client. Oracle: three-valued expectation from the statement (must refuse => connection closed, no ACK, "
        "incumbent undisturbed; must accept => one ACK carrying the id, for id 0 an id in 100..199 held by no live module, "
        "CLIENT_INFO at the monitors describes id/logger/unique/name/pid as requested, a directed probe reaches exactly the holders; "
        "either => outcome read from the connection); for the Client entry points the CONNECT_V2/CONNECT frames on the wire carry "
        "logger_status/daemon_status/allow_multiple/mod_id/name exactly as the keyword arguments say. Non-trivial = a connect while "
        "another live module shares its id or name, or a dynamic connect while dynamic ids are in use; distinct = (requested-id class, "
        "flags, relation to incumbents, protocol/entry point, verdict).")
ASSUME = SIM_ASSUME + [
    "id 100 (allowed by the manager's own message, forbidden by the client class) and a name clash where only the newcomer is unique are 'either'",
    "the clock is frozen in these profiles so that ACTIVE_CLIENTS does not add CLIENT_INFO frames the model does not predict",
]

IDENTITY = Profile(
    name="identity",
    oracles={"identity", "info", "ack", "routing", "closed", "framing"},
    weights={STEP: 10, CONNECT: 12, OPEN: 6, PUB: 5, SUB: 4, DISCONNECT: 4, CLOSE: 4, READY: 1, SETNAME: 2},
    clash_ids=True,
    dts=[0.0],
    p_logger=4,
    max_conns=9,
    static_ids=[10, 11, 50, 99, 1],
    setup_ops=monitor_setup(),
    protected=(0, 1),
)
CFGS = [{"timecode": False, "timing": True, "log": "error"}, {"timecode": True, "timing": False, "log": "silent"}]


def harvest(w: World, res: Result):
    for s in w.shapes:
        if s[0] == "identity":
            res.shape(*s)
    for k, n in w.stats.items():
        res.count(k, n)


# ---- (2) exhaustive pairs ------------------------------------------------------------------------
IDS = [0, 1, 10, 50, 99, 100, 101, 199, 200, -1, 32767]
PARAMS = [(i, m, n, v) for i in IDS for m in (0, 1) for n in ("", "alpha", "beta") for v in ("v1", "v2v1")]


def pair_ops(a, b, extra_probe=True):
    ops = list(monitor_setup())
    ops.append({"op": "_drain"})
    for k, (rid, multi, name, ver) in enumerate((a, b)):
        c = 2 + k
        ops.append({"op": "open"})
        ops.append({"op": "connect", "c": c, "ver": ver, "id": rid, "logger": 0, "daemon": 0, "multi": multi,
                    "name": name, "pid": 500 + k})
        ops.append({"op": "_drain"})
        ops.append({"op": "_subprobe", "c": c})
        ops.append({"op": "_drain"})
    ops.append({"op": "_probe"})
    ops.append({"op": "_drain"})
    return ops


def run_script(cfg, ops, res: Result = None):
    """Executes concrete ops plus the pseudo-ops _drain / _subprobe (subscribe to the probe type if
    still connected) / _probe (monitor 0 publishes a directed message to every held id)."""
    w = World(cfg, IDENTITY.oracles, "C06")
    try:
        for op in ops:
            k = op["op"]
            if k == "_drain":
                w.drain()
            elif k == "_subprobe":
                m = w.mods[op["c"]]
                if m.tracked and m.connected and not m.client_closed and not m.conn.manager_closed:
                    w.apply({"op": "sub", "c": m.idx, "kind": "SUBSCRIBE", "type": 4321})
            elif k == "_setname":
                m = w.mods[op["c"]]
                if m.tracked and m.connected and not m.client_closed and not m.conn.manager_closed:
                    w.apply({"op": "setname", "c": m.idx, "name": op["name"]})
            elif k == "_probe":
                ids = sorted({m.mod_id for m in w.mods if m.tracked and m.connected and m.mod_id > 0})
                for i in ids:
                    w.apply({"op": "pub", "c": 0, "type": 4321, "dm": i, "dh": 0, "size": 8, "src": 90})
            else:
                if k in ("connect", "sub", "pub", "disconnect", "close") and (w.mods[op["c"]].client_closed):
                    continue
                w.apply(op)
        w.drain()
        w.final_checks()
        if res is not None:
            harvest(w, res)
        return w
    finally:
        w.close()


def shard_pairs(idx, nshards, stride):
    res = Result()
    n = 0
    for i, (a, b) in enumerate(itertools.product(PARAMS, PARAMS)):
        if i % nshards != idx or (i // nshards) % stride:
            continue
        ops = pair_ops(a, b)
        try:
            run_script(CFGS[0], ops, res)
        except Violation as v:
            v.trace["kind"] = "script"
            res.add_finding(v.key, v.what, {"kind": "script", "cfg": CFGS[0], "ops": ops})
        n += 1
    res.evaluations += n
    res.count("pairs-enumerated", n)
    return res


# ---- (2b) three holders around one name --------------------------------------------------------------
# A name can legally be held by several live modules (the name rule does not apply to dynamic ids, renaming is unchecked):
# a third connect must still be judged against EVERY incumbent, not against the last holder of the name or id.
TRI_PARAMS = [(i, m, n) for i in (0, 10, 11, 12) for m in (0, 1) for n in ("", "alpha", "beta")]
TRI_STEPS = [("connect",) + p for p in TRI_PARAMS] + [("setname", "alpha"), ("setname", "beta")]


def triple_ops(steps):
    ops = list(monitor_setup())
    ops.append({"op": "_drain"})
    c = 1
    for k, st_ in enumerate(steps):
        if st_[0] == "connect":
            _, rid, multi, name = st_
            c += 1
            ops.append({"op": "open"})
            ops.append({"op": "connect", "c": c, "ver": "v2v1", "id": rid, "logger": 0, "daemon": 0, "multi": multi,
                        "name": name, "pid": 500 + k})
            ops.append({"op": "_drain"})
            ops.append({"op": "_subprobe", "c": c})
        elif c >= 2:
            # the module connected last renames itself
            ops.append({"op": "_setname", "c": c, "name": st_[1]})
        ops.append({"op": "_drain"})
    ops.append({"op": "_probe"})
    ops.append({"op": "_drain"})
    return ops


def shard_triples(idx, nshards, stride):
    res = Result()
    n = 0
    firsts = [("connect",) + p for p in TRI_PARAMS if p[2]]  # the first module carries a name
    for i, steps in enumerate(itertools.product(firsts, TRI_STEPS, [("connect",) + p for p in TRI_PARAMS])):
        if i % nshards != idx or (i // nshards) % stride:
            continue
        ops = triple_ops(steps)
        try:
            run_script(CFGS[0], ops, res)
        except Violation as v:
            res.add_finding(v.key, v.what, {"kind": "script", "cfg": CFGS[0], "ops": ops})
        n += 1
    res.evaluations += n
    res.count("triples-enumerated", n)
    return res


# ---- (3) dynamic-id churn -----------------------------------------------------------------------
def churn_ops(choices, fill):
    """choices: list of ints; even -> a new dynamic client connects, odd -> the (c//2 % live)-th live
    dynamic client leaves (DISCONNECT / FIN / RST by c % 3)."""
    ops = list(monitor_setup()) + [{"op": "_drain"}]
    live = []
    nxt = 2
    for c in choices:
        if c % 2 == 0 or not live:
            ops += [{"op": "open"}, {"op": "connect", "c": nxt, "ver": ["v2v1", "v1", "v2"][c // 2 % 3], "id": 0,
                                      "logger": 0, "daemon": 0, "multi": 0, "name": "", "pid": 1}, {"op": "_drain"}]
            live.append(nxt)
            nxt += 1
        else:
            v = live.pop((c // 2) % len(live))
            how = c % 3
            ops.append({"op": "disconnect", "c": v} if how == 0 else {"op": "close", "c": v, "how": "fin" if how == 1 else "rst", "gone": "silent"})
            ops.append({"op": "_drain"})
    if fill:
        # fill every dynamic id, then more requests than ids: they may be refused, but nothing may break
        while len(live) < 100:
            ops += [{"op": "open"}, {"op": "connect", "c": nxt, "ver": "v2v1", "id": 0, "logger": 0, "daemon": 0, "multi": 0,
                                      "name": "", "pid": 1}, {"op": "_drain"}]
            live.append(nxt)
            nxt += 1
        for _ in range(fill[0]):
            ops += [{"op": "open"}, {"op": "connect", "c": nxt, "ver": "v2v1", "id": 0, "logger": 0, "daemon": 0, "multi": 0,
                                      "name": "", "pid": 1}, {"op": "_drain"}]
            nxt += 1
        # a holder leaves while the pool is full: the next request for a dynamic id must be accepted
        for pick, how in fill[1]:
            v = live.pop(len(live) - 1 - pick % len(live))
            ops.append({"op": "disconnect", "c": v} if how == 0 else {"op": "close", "c": v, "how": "fin" if how == 1 else "rst", "gone": "silent"})
            ops.append({"op": "_drain"})
            ops += [{"op": "open"}, {"op": "connect", "c": nxt, "ver": "v2v1", "id": 0, "logger": 0, "daemon": 0, "multi": 0,
                                      "name": "", "pid": 1}, {"op": "_drain"}]
            live.append(nxt)
            nxt += 1
    ops.append({"op": "_probe"})
    return ops


def shard_churn(seed, n):
    res = Result()

    def body(v):
        choices, fill = v
        ops = churn_ops(choices, fill)
        try:
            w = run_script(CFGS[0], ops, res)
        except Violation as e:
            raise Violation(e.key, e.what, {"kind": "script", "cfg": CFGS[0], "ops": ops})
        res.count("churn-histories")
        res.count("churn-connects", sum(1 for o in ops if o["op"] == "connect"))
        if fill:
            res.count("churn-fill-all-ids")
            res.count("churn-reuse-with-full-pool", len(fill[1]))

    fill = st.one_of(st.none(), st.tuples(st.integers(1, 3), st.lists(
        st.tuples(st.sampled_from([0, 0, 1, 2, 3, 4, 50, 99]), st.integers(0, 2)), max_size=5)))
    strat = st.tuples(st.lists(st.integers(0, 11), min_size=130, max_size=260).map(
        lambda l: [x if i % 3 else 0 for i, x in enumerate(l)]), fill)
    hyp_run(body, strat, seed, n, res)
    return res


# ---- (4) public entry points --------------------------------------------------------------------
class AnyOf:
    """Expected value with several allowed outcomes."""

    def __init__(self, allowed):
        self.allowed = list(allowed)

    def __eq__(self, other):
        return other in self.allowed

    def __ne__(self, other):
        return other not in self.allowed

    def __repr__(self):
        return "one of %r" % (self.allowed,)


def entry_case(kw, res: Result = None):
    """kw: dict(entry, module_id, name, logger, daemon, multi, timecode)."""
    import logging
    import struct

    from vlib.simclient import ClientSim

    cs = ClientSim(timecode=kw["timecode"], send_msg_timing=False, log_level=logging.CRITICAL + 10)
    trace = {"kind": "entry", "kw": kw}
    try:
        import pyrtma.client as pc

        sim = cs.sim
        mon = sim.open()
        mon.send(P.build(P.MT_CONNECT_V2, P.CONNECT_V2.pack(0, 0, 0, 90, 1, P.cstr(b"monitor")), src_mod=90, timecode=kw["timecode"]))
        mon.send(P.build(P.MT_SUBSCRIBE, P.SUBSCRIBE.pack(P.MT_CLIENT_INFO), src_mod=90, timecode=kw["timecode"]))
        cs.pump()
        for k in range(kw.get("others", 0)):
            o = sim.open()
            o.send(P.build(P.MT_CONNECT_V2, P.CONNECT_V2.pack(0, 0, 0, 0, 1, P.cstr(b"")), src_mod=0, timecode=kw["timecode"]))
        cs.pump()
        mon.take()
        before = len(sim.net.pairs)
        from vlib.simnet import SOCK

        SOCK.label = "cl-entry"  # sockets created from here on capture what they write
        if kw["entry"] == "connect":
            c = cs.new_client(module_id=kw["module_id"], timecode=kw["timecode"], name=kw["name"])
            args = {}
            if kw["logger"] is not None:
                args["logger_status"] = kw["logger"]
            if kw["daemon"] is not None:
                args["daemon_status"] = kw["daemon"]
            if kw["multi"] is not None:
                args["allow_multiple"] = kw["multi"]
            try:
                c.connect("127.0.0.1:7111", **args)
            except Exception as e:
                raise Violation(f"entry/connect/raised-{type(e).__name__}", f"{kw}: connect() raised {type(e).__name__}: {e}", trace)
            client = c
            cm = None
        else:
            args = dict(module_id=kw["module_id"], server_name="127.0.0.1:7111", timecode=kw["timecode"], name=kw["name"])
            if kw["logger"] is not None:
                args["logger_status"] = kw["logger"]
            if kw["multi"] is not None:
                args["allow_multiple"] = kw["multi"]
            cm = pc.client_context(**args)
            client = cm.__enter__()
            cs.clients.append(client)
        cs.pump()
        if sim.dead:
            raise Violation("manager-died", sim.dead.splitlines()[-1], trace)
        # wire capture: everything the client's socket wrote
        csock = sim.net.pairs[before][0]
        wire = bytearray(csock.tx_log)
        frames = P.parse_stream(wire, kw["timecode"])
        want = dict(logger=int(bool(kw["logger"])), daemon=int(bool(kw["daemon"])) if kw["entry"] == "connect" else 0,
                    multi=int(bool(kw["multi"])), mod_id=kw["module_id"], name=kw["name"].encode())
        if not kw["name"] and kw["module_id"]:
            # no name given: the client may fill in the name of the MID_ constant with this value (either is accepted)
            from pyrtma.context import get_context

            auto = [k.encode() for k, v in get_context().MID.items() if v == kw["module_id"]]
            want["name"] = AnyOf([b""] + auto)
        v2 = [f for f in frames if f.msg_type == P.MT_CONNECT_V2]
        v1 = [f for f in frames if f.msg_type == P.MT_CONNECT]
        if not v2 and not v1:
            raise Violation("entry/no-connect-frame", f"{kw}: no CONNECT frame on the wire", trace)
        for f in v2:
            lg, dm, mu, mid, pid, nm = P.CONNECT_V2.unpack(f.payload)
            got = dict(logger=lg, daemon=dm, multi=mu, mod_id=mid, name=nm.split(b"\0")[0])
            bad = {k: (want[k], got[k]) for k in want if want[k] != got[k]}
            if bad:
                raise Violation("entry/" + kw["entry"] + "/" + "+".join(sorted(bad)),
                                f"{kw['entry']}({ {k: v for k, v in kw.items() if k != 'entry'} }): CONNECT_V2 on the wire differs from the "
                                f"keyword arguments (expected, sent): {bad}", trace)
        for f in v1:
            lg, dm = P.CONNECT.unpack(f.payload)
            bad = {}
            if lg != want["logger"]:
                bad["logger"] = (want["logger"], lg)
            if dm != want["daemon"]:
                bad["daemon"] = (want["daemon"], dm)
            if bad:
                raise Violation("entry/" + kw["entry"] + "/v1-" + "+".join(sorted(bad)),
                                f"{kw['entry']}: CONNECT on the wire differs from the keyword arguments: {bad}", trace)
        # effect at the manager: CLIENT_INFO seen by the monitor
        mon.rxbuf += mon.take()
        infos = [P.parse_client_info(f.payload) for f in P.parse_stream(mon.rxbuf, kw["timecode"]) if f.msg_type == P.MT_CLIENT_INFO]
        mine = [i for i in infos if i["port"] == csock.addr[1]]
        if not mine:
            raise Violation("entry/no-client-info", f"{kw}: the monitor saw no CLIENT_INFO for the new client", trace)
        last = mine[-1]
        exp_id = kw["module_id"]
        bad = {}
        if exp_id and last["mod_id"] != exp_id:
            bad["mod_id"] = (exp_id, last["mod_id"])
        if not exp_id and not (100 <= last["mod_id"] < 200):
            bad["mod_id"] = ("100..199", last["mod_id"])
        if last["mod_id"] != client.module_id:
            bad["client.module_id"] = (last["mod_id"], client.module_id)
        if last["is_logger"] != want["logger"]:
            bad["is_logger"] = (want["logger"], last["is_logger"])
        if last["is_unique"] != 1 - want["multi"]:
            bad["is_unique"] = (1 - want["multi"], last["is_unique"])
        if last["name"] != want["name"]:
            bad["name"] = (want["name"], last["name"])
        if bad:
            raise Violation("entry/" + kw["entry"] + "/effect-" + "+".join(sorted(bad)),
                            f"{kw}: the manager registered the client differently from what was asked (expected, got): {bad}", trace)
        if kw.get("reconnect") and cm is None:
            # the same Client object connects again (connect() disconnects first): a dynamic id must be
            # requested afresh, the flags of the second call apply
            flags2 = kw["reconnect"]
            if kw.get("lost"):
                # ... after the connection was lost without disconnect(): the manager drops the client
                # (it sent a header with an impossible payload length) and the client notices on its next read
                from pyrtma.exceptions import ConnectionLost

                client._sock.sendall(P.build(1234, b"", num_data_bytes=-5, src_mod=client.module_id, timecode=kw["timecode"]))
                cs.pump()
                try:
                    for _ in range(50):
                        if client.read_message(timeout=0) is None and not client._sock.rx and not client._sock.rx_fin:
                            break
                    raise Violation("entry/lost/not-noticed", f"{kw}: the manager dropped the client but read_message never raised ConnectionLost", trace)
                except ConnectionLost:
                    pass
                if res is not None:
                    res.count("entry-reconnect-after-loss")
            mon.take()
            mon.rxbuf.clear()
            n_before = len(sim.net.pairs)
            SOCK.label = "cl-entry2"
            try:
                client.connect("127.0.0.1:7111", logger_status=flags2[0], daemon_status=flags2[1], allow_multiple=flags2[2])
            except Exception as e:  # the id (or a fresh dynamic id) is free: the connect must succeed
                raise Violation(f"entry/reconnect/raised-{type(e).__name__}",
                                f"{kw}: connecting again with the same Client object raised {type(e).__name__}: {e}", trace)
            cs.pump()
            if sim.dead:
                raise Violation("manager-died", sim.dead.splitlines()[-1], trace)
            csock2 = sim.net.pairs[-1][0]
            mon.rxbuf += mon.take()
            infos = [P.parse_client_info(f.payload) for f in P.parse_stream(mon.rxbuf, kw["timecode"]) if f.msg_type == P.MT_CLIENT_INFO]
            mine = [i for i in infos if i["port"] == csock2.addr[1]]
            if not mine:
                raise Violation("entry/reconnect-no-client-info", f"{kw}: no CLIENT_INFO after the second connect()", trace)
            last = mine[-1]
            bad = {}
            if kw["module_id"] and last["mod_id"] != kw["module_id"]:
                bad["mod_id"] = (kw["module_id"], last["mod_id"])
            if not kw["module_id"] and not (100 <= last["mod_id"] < 200):
                bad["mod_id"] = ("100..199", last["mod_id"])
            if last["mod_id"] != client.module_id:
                bad["client.module_id"] = (last["mod_id"], client.module_id)
            if last["is_logger"] != int(flags2[0]):
                bad["is_logger"] = (int(flags2[0]), last["is_logger"])
            if last["is_unique"] != 1 - int(flags2[2]):
                bad["is_unique"] = (1 - int(flags2[2]), last["is_unique"])
            if last["name"] != want["name"]:
                bad["name"] = (want["name"], last["name"])
            if bad:
                raise Violation("entry/reconnect/effect-" + "+".join(sorted(bad)),
                                f"{kw}: after the second connect() the manager registered the client differently from what was asked: {bad}", trace)
            if res is not None:
                res.count("entry-reconnect")
        if cm is not None:
            cm.__exit__(None, None, None)
        if res is not None:
            res.count("entry-" + kw["entry"])
            res.shape("identity", "entry", kw["entry"], bool(kw["module_id"]), kw["logger"], kw["daemon"], kw["multi"], bool(kw["name"]))
    finally:
        cs.close()


def shard_entry(seed, n):
    res = Result()
    tri = st.sampled_from([None, False, True])
    strat = st.fixed_dictionaries(dict(entry=st.sampled_from(["connect", "client_context"]),
                                       module_id=st.sampled_from([0, 0, 10, 11, 50, 99, 1, 4, 5]),  # 4 and 5 are MID_ constants of the core definitions
                                       name=st.sampled_from(["", "alpha", "a_long_module_name_of_31_chars_"]),
                                       logger=tri, daemon=tri, multi=tri, timecode=st.booleans(),
                                       reconnect=st.one_of(st.none(), st.tuples(st.booleans(), st.booleans(), st.booleans())),
                                       lost=st.booleans(), others=st.integers(0, 3)))
    hyp_run(lambda kw: entry_case(kw, res), strat, seed, n, res)
    return res


# ---- driver --------------------------------------------------------------------------------------
def shard_hist(seed, n, max_len):
    res = Result()

    def body(v):
        ci, raws = v
        w = mgen.run_history(CFGS[ci], IDENTITY, raws, "C06")
        harvest(w, res)
        res.count("histories")
        if len(res.samples) < 2 and any(s[0] == "identity" for s in w.shapes):
            res.sample({"cfg": CFGS[ci], "ops": w.trace[:70]})

    hyp_run(body, st.tuples(st.integers(0, 1), mgen.raw_ops(IDENTITY, max_len, min_len=14, min_clients=2)), seed, n, res)
    return res


def shard(kind, *a):
    return {"hist": shard_hist, "pairs": shard_pairs, "triples": shard_triples, "churn": shard_churn, "entry": shard_entry}[kind](*a)


def run(ctx: RunContext) -> int:
    t0 = time.time()
    n = ctx.scale(500, 12000)
    jobs = [("hist", derive_seed(ctx.seed, i), n, 60 if ctx.quick else 140) for i in range(12)]
    jobs += [("pairs", i, 16, 1) for i in range(16)]
    jobs += [("triples", i, 16, 1) for i in range(16)]
    jobs += [("churn", derive_seed(ctx.seed, 100 + i), ctx.scale(6, 120)) for i in range(4)]
    jobs += [("entry", derive_seed(ctx.seed, 200 + i), ctx.scale(150, 2000)) for i in range(4)]
    res = run_shards(shard, jobs)
    res.notes.append("sub-domain enumerated completely: all 17424 ordered pairs of consecutive connects over "
                     "(11 id classes x allow-multiple x 3 names x 2 protocol versions); and all 9984 sequences (named first connect) x "
                     "(second connect or rename of the first module) x (third connect) over (id 0/10/11/12 x allow-multiple x 3 names)")
    return conclude(ctx, res, RULE, ASSUME, t0)


def replay_trace(trace: dict):
    k = trace.get("kind")
    if k == "script":
        run_script(trace["cfg"], trace["ops"])
    elif k == "entry":
        entry_case(trace["kw"])
    else:
        mgen.replay_history(trace, "C06")
