"""C16 - compilation is deterministic, the combined YAML round-trips, the shipped core definitions are current.

(a) the same closure compiled in two separate interpreters with different working directory, output directory,
    spelling of the input path and PYTHONHASHSEED -> all six outputs byte-identical;
(a') history: a long-lived process compiles a sequence of 2-4 DIFFERENT closures; each output of each closure must be
    byte-identical to what a fresh process writes for that closure, and the combined YAML written last goes through (b);
(b) NAME_combined.yaml recompiled through the documented command line (which honours the embedded
    IMPORT_COREDEFS: false) -> same ids, hashes, sizes, layouts and constants as the original;
(c) core_defs.yaml (+ data_logger.yaml, quick_logger.yaml) compiled now == the shipped pyrtma/core_defs.py
    (AST-equal and signature-equal); the sensitivity of (c) is demonstrated by generated one-token edits of a
    scratch copy of the YAML files, each of which must make the comparison fail.
See DESIGN.md 4 "C16".
"""
from __future__ import annotations

import ast
import copy
import io
import os
import random
import re
import shutil
import time

from vlib import defgen as G
from vlib import defgen_hist as H
from vlib import langs as L
from vlib.common import HarnessError, Result, RunContext, Violation, conclude, derive_seed, hyp_run, run_shards

RULE = ("(a)+(b): Hypothesis draws well-formed definition closures (vlib.defgen.programs, all three compiler options drawn, half of them "
        "with the 5-file skeleton; the all-minimal first example of each campaign is skipped); most get constructs the round trip is sensitive to "
        "(vlib.defgen_hist): compiler_options sections in IMPORTED files with alignment switches that differ from the options in force, a "
        "compiler_options section in the root file (consistent with the options in force - then `python -m pyrtma.compile` without switches is a "
        "further compilation that must give the same bytes and its combined YAML is the one recompiled - or arbitrary, compile() ignores it), one "
        "array length written as an expression of > 90 columns with 2-3 blanks around the operators; one base in five has string constants of the generator's classes string-control / string-yamlish "
        "(line breaks, tabs, and texts of several lines whose lines look like YAML to a line-by-line reader: host:port, http://..., 12:30, key: value, - item, # text, block and flow indicators, "
        "leading / trailing blanks) and definitions called like a definition of another namespace (cross-namespace-names) or like a name a back end writes itself (backend-literal-names); two "
        "covering closures per run hold EVERY text of the string vocabulary and every accepted cross-namespace name combination (core names and user names); one closure in five is a model-free closure "
        "whose structs / messages have fields of CORE struct / message types (DATA_SET, SUBSCRIBE, CONNECT ...) behind 4-byte members; each is written once and compiled twice in separate interpreters (run 1: cwd = parent of the source "
        "tree, relative input path, absolute output directory, PYTHONHASHSEED=0; run 2: another cwd, absolute input path, relative output "
        "directory, a different PYTHONHASHSEED; real black for a sample, stubbed otherwise, always the same mode in both runs); the "
        ".py/.js/.m/.h/_combined.yaml/.txt outputs must be byte-identical.  The combined YAML of run 1 is then recompiled with "
        "`python -m pyrtma.compile -i gdefs_combined.yaml` and NO option switch (the file carries the options) and the resulting Python module (every int/float/str global; type_id, type_hash, type_size, "
        "ctypes.sizeof, alignment and every field's name/kind/width/length/offset of every class), the JavaScript dump and the MATLAB "
        "value tree must equal those of the original.  (a') sequences of 2-4 different closures (plain builder of the generator, seeded from "
        "VERIF_SEED; five of six later closures RE-USE NAMES of an earlier closure of the sequence with another meaning: the same files after 2-6 "
        "name-keeping edits - alias with another base type, struct <-> message, other field list, other constant value, other id - or an unrelated "
        "closure whose aliases / structs / messages / signals are renamed to names the earlier closure uses for definitions of the same or another kind) are compiled one after the other by ONE long-lived interpreter and each also by a fresh interpreter (same black mode, "
        "different PYTHONHASHSEED): all six outputs of every closure must be byte-identical, and the combined YAML the long-lived process "
        "wrote for the last closure goes through the same command-line round trip.  A third process drives ONE Parser object through the "
        "same sequence (all closures of a sequence share the three options): clear(), parse(), then the six back ends exactly as compile() "
        "builds them, with - in half of the steps - a copy of the closure carrying an injected fault (missing import, message without "
        "id/fields, signal as field type) parsed and aborted first; again all six outputs must equal the fresh parser's.  (c): the shipped core YAML files are compiled with the options the package uses "
        "(output name core_defs, IMPORT_COREDEFS false) and compared with the shipped core_defs.py by ast.dump and by the imported "
        "signature; then N generated single edits (constant value, field type, message id, field order, field name, array length, "
        "module/host id, alias target) of a scratch copy must each make that comparison fail.  Non-trivial = accepted program with >=2 "
        "files and >=1 padded struct, or with user definitions embedding core structs / messages (a)/(b), a closure compiled after >=1 different closure in the same process or by a Parser object used (or aborted) before (a'), or a detected edit (c); distinct = (graph shape, #files, options, black?, classes) or (edit kind, target).")
ASSUME = [
    "the first line of the .txt info output is a comment holding the output file's own path relative to the definition root; it is compared after removing that path (it must differ when the output directory differs)",
    "checked on the unchanged tree: nothing but that first .txt line depends on how the root file's path is spelled (symlinks, relative/absolute, ..)",
    "both runs of a pair use the same black mode; black itself is assumed deterministic",
    "the combined YAML is recompiled as it is written, through the command line, which reads compiler_options from the root file it is given: no switch repeats validate_alignment / auto_pad of the original compilation (the statement speaks of recompiling the combined-YAML output, not of recompiling it with remembered switches)",
    "compiler_options sections of imported files have no documented effect (the command line reads the root file's, compile() none): closures carrying them are ordinary accepted closures",
    "closures with fields of core types are generated without the independent layout model (it does not know the core definitions): their oracle is determinism and the round trip only; one the compiler rejects (size limit) is counted as not accepted",
    "type_source (the path of the defining file) legitimately changes through the combined-YAML round trip and is not compared",
    "(c) compares by AST, so that the verdict does not depend on the installed black version; the module docstring / COMPILED_PYRTMA_VERSION carry the package version, which is the same on both sides because both come from the same tree",
    "no MATLAB/Octave: the .m outputs of (b) are compared through vlib.langs.matlab_run",
]

EXTS = ("py", "js", "m", "h", "yaml", "txt")


def _read(p):
    with open(p, "rb") as f:
        return f.read()


def _norm_txt(b: bytes) -> bytes:
    lines = b.split(b"\n")
    if lines and lines[0].startswith(b"# "):
        lines[0] = b"# <own path>/" + lines[0].rsplit(b"/", 1)[-1]
    return b"\n".join(lines)


def _first_diff(a: bytes, b: bytes):
    la, lb = a.decode("utf8", "replace").splitlines(), b.decode("utf8", "replace").splitlines()
    for i, (x, y) in enumerate(zip(la, lb)):
        if x != y:
            return f"line {i + 1}: {x.strip()[:90]!r} vs {y.strip()[:90]!r}"
    return f"{len(la)} vs {len(lb)} lines"


def _py_view(raw):
    """What (b)/(c) compare of an imported module."""
    if not raw["ok"]:
        return {"error": raw["error"]}
    classes = {}
    for n, c in raw["classes"].items():
        if "error" in c:
            classes[n] = c
            continue
        classes[n] = {"type_id": c.get("type_id"), "type_hash": c.get("type_hash"), "type_size": c.get("type_size"), "type_name": c.get("type_name"),
                      "sizeof": c["sizeof"], "align": c["align"],
                      "fields": [(f["name"], f["k"], f["w"], f["len"], f["off"], f.get("ref"), f.get("descriptor")) for f in c["fields"]],
                      "registered": c.get("registered")}
    return {"globals": raw["globals"], "classes": classes, "aliases": raw["aliases"]}


def diff_py_views(a, b, what_a="original", what_b="recompiled"):
    out = []
    if "error" in a or "error" in b:
        if a.get("error") != b.get("error"):
            out.append(("import", f"{what_a}: {a.get('error')}, {what_b}: {b.get('error')}"))
        return out
    for n, v in a["globals"].items():
        if n not in b["globals"]:
            out.append(("global-missing", f"{n} = {v!r} exists in the {what_a} module only"))
        elif b["globals"][n] != v or type(b["globals"][n]) is not type(v):
            out.append(("global-value", f"{n}: {what_a} {v!r}, {what_b} {b['globals'][n]!r}"))
    for n in b["globals"]:
        if n not in a["globals"]:
            out.append(("global-extra", f"{n} exists in the {what_b} module only"))
    for n, c in a["classes"].items():
        d = b["classes"].get(n)
        if d is None:
            out.append(("class-missing", f"class {n} exists in the {what_a} module only"))
            continue
        for k in ("type_id", "type_hash", "type_size", "type_name", "sizeof", "align", "registered"):
            if c.get(k) != d.get(k):
                out.append((k.replace("sizeof", "size").replace("type_size", "size"), f"{n}.{k}: {what_a} {c.get(k)!r}, {what_b} {d.get(k)!r}"))
        if c.get("fields") != d.get("fields"):
            fa, fb = c.get("fields") or [], d.get("fields") or []
            bad = next((f"{x} vs {y}" for x, y in zip(fa, fb) if x != y), f"{len(fa)} vs {len(fb)} fields")
            out.append(("layout", f"{n}: fields differ: {bad}"))
    for n in b["classes"]:
        if n not in a["classes"]:
            out.append(("class-extra", f"class {n} exists in the {what_b} module only"))
    for n, v in a["aliases"].items():
        if b["aliases"].get(n) != v:
            out.append(("alias", f"alias {n}: {what_a} {v}, {what_b} {b['aliases'].get(n)}"))
    return out


# ------------------------------------------------------------------------------------------------
# (a) + (b)


def roundtrip(E: L.Examiner, program: G.Program, comb_src: str, orig_out: str, w: L.Work, res: Result = None, tag=""):
    """(b): recompile the combined YAML comb_src through the command line and compare with the outputs in orig_out."""
    out = []
    opts = program.compile_kwargs()
    cdir = w.sub(f"combined{tag}")
    comb = os.path.join(cdir, "gdefs_combined.yaml")
    shutil.copyfile(comb_src, comb)
    out_c = w.sub(f"combined{tag}/out")
    try:
        # the combined file is compiled as it is: no switch repeats an option of the original compilation
        rc, text = L.compile_cli(comb, out_c, "gdefs", cwd=cdir)
    except L.ToolTimeout:
        if res is not None:
            res.inconclusive += 1
        return out
    if rc != 0:
        lines = [l for l in text.strip().splitlines() if l.strip() and not l.startswith("INFO")]
        tail = " | ".join(lines[-3:])
        cls = "general"
        def kind(n):
            try:
                return program.by_name(n).kind
            except Exception:
                return H.core_kind(n) if opts["import_coredefs"] else None

        m = re.search(r"Unable to find definition for (\w+) in (\w+)", text)
        if m and kind(m.group(1)) == "message" and kind(m.group(2)) == "struct":
            cls = "struct-reuses-imported-message"
        m = re.search(r"Unable to resolve alias (\w+): (\w+)", text)
        if m and kind(m.group(1)) == "alias" and kind(m.group(2)) == "struct":
            cls = "alias-of-imported-struct"
        m = re.search(r"Unknown type specified \((\w+)\): (\w+)=>", text)
        if m and kind(m.group(1)) == "message" and kind(m.group(2)) == "struct":
            cls = "struct-contains-message"
        out.append((f"combined/recompile-fails/{cls}", f"the combined YAML of an accepted closure does not compile (rc {rc}): {tail[:300]}"))
        return out
    try:
        va = _py_view(E.py.load(os.path.join(orig_out, "gdefs.py"), fork=True))
        vb = _py_view(E.py.load(os.path.join(out_c, "gdefs.py"), fork=True))
        pd = diff_py_views(va, vb)
        for aspect, text in pd:
            rsv = "/reserved-ids" if "_RESERVED_" in text else ""
            out.append((f"combined/{aspect}{rsv}", f"recompiling the combined YAML changes the Python output: {text}"[:400]))
        if pd:
            return out  # the other languages repeat the same difference
        ja, jb = E.js.load(os.path.join(orig_out, "gdefs.js")), E.js.load(os.path.join(out_c, "gdefs.js"))
        if ja != jb:
            out.append(("combined/js-differs", "recompiling the combined YAML changes what the JavaScript module exports"))
    except L.ToolTimeout:
        if res is not None:
            res.inconclusive += 1
        return out
    try:
        ign = () if opts["import_coredefs"] else (L.MATLAB_HEADER_REF,)
        ma = L.matlab_run(open(os.path.join(orig_out, "gdefs.m")).read(), ignore_undefined=ign)
        mb = L.matlab_run(open(os.path.join(out_c, "gdefs.m")).read(), ignore_undefined=ign)
        if ma != mb:
            out.append(("combined/matlab-differs", "recompiling the combined YAML changes the value the MATLAB script builds"))
    except L.MatlabUnsupported:
        raise
    except L.MatlabError:
        pass  # a script that does not run is C15's subject
    if res is not None:
        res.count("combined-roundtrips")
    return out


def run_program(E: L.Examiner, program: G.Program, black: bool, hashseed: int, res: Result = None):
    """-> [(key, what)]"""
    out = []
    opts = program.compile_kwargs()
    with L.Work() as w:
        src = w.sub("tree")
        root_abs = program.write(src)
        root_rel = os.path.relpath(root_abs, w.dir)
        out_a = w.sub("out_a")
        cwd_b = w.sub("elsewhere/deeper")
        os.makedirs(os.path.join(cwd_b, "rel_out"))
        try:
            rc1, err1 = L.compile_in_subprocess(root_rel, out_a, "gdefs", w.dir, 0, black, **opts)
            rc2, err2 = L.compile_in_subprocess(root_abs, "rel_out", "gdefs", cwd_b, hashseed, black, **opts)
        except L.ToolTimeout:
            if res is not None:
                res.inconclusive += 1
            return out
        out_b = os.path.join(cwd_b, "rel_out")
        if rc1 != 0 or rc2 != 0:
            if (rc1 == 0) != (rc2 == 0):
                out.append(("determinism/accepted-once", f"one compilation succeeded, the other failed: rc {rc1} / {rc2}: {(err1 or err2).strip().splitlines()[-1:]}"))
            elif res is not None:
                res.count("not-accepted")
            return out
        if res is not None:
            res.count("accepted")
            res.count("pairs-with-real-black" if black else "pairs-with-black-stubbed")
        for ext in EXTS:
            fa, fb = os.path.join(out_a, "gdefs" + L.OUT_EXT[ext]), os.path.join(out_b, "gdefs" + L.OUT_EXT[ext])
            if not os.path.exists(fa) or not os.path.exists(fb):
                out.append((f"determinism/output-missing/{ext}", f"output gdefs{L.OUT_EXT[ext]} was not written by both runs"))
                continue
            a, b = _read(fa), _read(fb)
            if ext == "txt":
                a, b = _norm_txt(a), _norm_txt(b)
            if a != b:
                out.append((f"determinism/bytes-differ/{ext}", f"two compilations of the same closure (cwd, output dir, PYTHONHASHSEED 0 vs {hashseed}) "
                            f"give different gdefs{L.OUT_EXT[ext]}: {_first_diff(a, b)}"))
            if res is not None:
                res.count("output-pairs-compared")
        # ---- (a) spellings of the root path: through symbolic links, relative and absolute
        real_dir = os.path.dirname(root_abs)
        base = os.path.basename(root_abs)
        os.symlink(src, os.path.join(w.dir, "tree_link"))                       # link to the top of the source tree
        up = w.sub("up/one")
        os.symlink(real_dir, os.path.join(w.dir, "up", "rootdir_link"))          # link to the root file's own directory, one level up
        spell_cwd = up
        spellings = [
            ("abs-symlinked-tree", os.path.join(w.dir, "tree_link", os.path.relpath(root_abs, src))),
            ("rel-symlinked-rootdir", os.path.join("..", "rootdir_link", base)),
            ("abs-symlinked-rootdir", os.path.join(w.dir, "up", "rootdir_link", base)),
            ("rel-symlinked-tree", os.path.relpath(os.path.join(w.dir, "tree_link", os.path.relpath(root_abs, src)), spell_cwd)),
            ("rel-dotdot", os.path.join("..", "..", os.path.relpath(real_dir, w.dir), ".", base)),
        ]
        # two of the five per program (all five appear across programs), compiled by one extra process started elsewhere
        pick = [spellings[(hashseed + j) % len(spellings)] for j in (0, 2)]
        sw = L.CompileWorker(cwd=spell_cwd, hashseed="0")
        try:
            for tag, spelled in pick:
                out_s = w.sub("out_" + tag)
                try:
                    rcs, errs = sw.compile(spelled, out_s, "gdefs", black, **opts)
                except L.ToolTimeout:
                    if res is not None:
                        res.inconclusive += 1
                    break
                if rcs != 0:
                    out.append((f"determinism/path-spelling/{tag}/rejected", f"the closure compiles through its real path but not when the root file is named {spelled!r}: {errs}"))
                    continue
                for ext in EXTS:
                    a, b = _read(os.path.join(out_a, "gdefs" + L.OUT_EXT[ext])), _read(os.path.join(out_s, "gdefs" + L.OUT_EXT[ext]))
                    if ext == "txt":
                        a, b = _norm_txt(a), _norm_txt(b)
                    if a != b:
                        out.append((f"determinism/path-spelling/{tag}/{ext}", f"naming the root file {tag} ({spelled!r}) instead of by its real path changes "
                                    f"gdefs{L.OUT_EXT[ext]}: {_first_diff(a, b)}"))
                if res is not None:
                    res.count("path-spelling/" + tag)
        finally:
            sw.close()
        comb_src = os.path.join(out_a, "gdefs_combined.yaml")
        if "root-file-options/consistent" in program.classes:
            # the root file states the very options of this compilation: the documented command line, given no switch at all,
            # is a further compilation of the same closure - same bytes (the .py only when run 1 used the real black, which the
            # command line always does) - and its combined YAML is the one that goes through the round trip
            out_cli = w.sub("out_cli")
            try:
                rcc, textc = L.compile_cli(root_abs, out_cli, "gdefs", cwd=w.sub("cli_cwd"), hashseed=str(hashseed))
            except L.ToolTimeout:
                rcc, textc = None, ""
                if res is not None:
                    res.inconclusive += 1
            if rcc is not None and rcc != 0:
                lines = [l for l in textc.strip().splitlines() if l.strip() and not l.startswith("INFO")]
                out.append(("determinism/entry-point/rejected", f"compile(**options) accepts the closure, `python -m pyrtma.compile` with the same options "
                            f"written in the root file's compiler_options does not (rc {rcc}): {' | '.join(lines[-3:])[:300]}"))
            elif rcc == 0:
                for ext in EXTS:
                    if ext == "py" and not black:
                        continue
                    a, b = _read(os.path.join(out_a, "gdefs" + L.OUT_EXT[ext])), _read(os.path.join(out_cli, "gdefs" + L.OUT_EXT[ext]))
                    if ext == "txt":
                        a, b = _norm_txt(a), _norm_txt(b)
                    if a != b:
                        out.append((f"determinism/entry-point/{ext}", f"compile(**options) and the command line reading the same options from the root file's "
                                    f"compiler_options give different gdefs{L.OUT_EXT[ext]}: {_first_diff(a, b)}"))
                comb_src = os.path.join(out_cli, "gdefs_combined.yaml")
                if res is not None:
                    res.count("command-line-compiles-of-root-file-options")
        out += roundtrip(E, program, comb_src, out_a, w, res)
    return out


def run_roundtrip(E: L.Examiner, program: G.Program, res: Result = None):
    """(b) alone: one compilation, then the command-line round trip of its combined YAML (regression replays)."""
    with L.Work() as w:
        root = program.write(w.sub("tree"))
        out_a = w.sub("out_a")
        try:
            rc, _err = L.compile_in_subprocess(root, out_a, "gdefs", w.dir, 0, False, **program.compile_kwargs())
        except L.ToolTimeout:
            return []
        if rc != 0:
            return []
        return roundtrip(E, program, os.path.join(out_a, "gdefs_combined.yaml"), out_a, w, res)


def shape_of(program, black):
    nt = (len(program.files) >= 2 and "needs-padding" in program.classes) or "core-embedding" in program.classes
    cl = tuple(sorted(c for c in program.classes if c in ("needs-padding", "reuse", "alias-field", "struct-array", "multi-path", "cycle", "respell",
                                                          "expr-length", "message-in-message", "const-float", "string-const", "host-id", "reserved-range-dash",
                                                          "core-embedding", "imported-file-options", "root-file-options/consistent",
                                                          "root-file-options/random", "long-type-text", "string-yamlish", "cross-namespace-names")))
    return nt, (program.shape, len(program.files), tuple(sorted(program.options.items())), black, cl)


NEW_CLASSES = ("core-embedding", "imported-file-options", "root-file-options/consistent", "root-file-options/random", "long-type-text",
               "string-control", "string-yamlish", "cross-namespace-names", "backend-literal-names")


def st_closures():
    """Closures of the general generator, most of them with one or two of the constructs the combined-YAML round trip is
    sensitive to, and (one in five) model-free closures whose definitions embed CORE structs / messages."""
    from hypothesis import strategies as st

    cross = ("alias-of-imported-struct", "alias-of-imported-struct-field", "struct-contains-message", "string-special", "prefix-names")
    texts = ("string-control", "cross-namespace-names", "backend-literal-names")
    bases = st.one_of(G.programs(), G.programs(skeleton=True), G.programs(skeleton=True, rich=True), G.programs(skeleton=True, allow=cross),
                      G.programs(rich=True, allow=texts))

    @st.composite
    def _c(draw):
        ch = G.HypChooser(draw)
        if ch.chance(0.2):
            return H.core_embedding_program(ch)
        p = draw(bases)
        if ch.chance(0.3):
            p = H.with_long_type_text(p, ch) or p
        how = ch.weighted([("none", 3), ("imported", 3), ("imported+root-consistent", 2), ("imported+root-random", 2), ("root-consistent", 1)])
        if how != "none":
            p = H.with_file_options(p, ch, root="consistent" if how.endswith("root-consistent") else "random" if how.endswith("root-random") else None,
                                    imported=how.startswith("imported"))
        return p

    return _c()


def shard_programs(seed, n, idx, n_black):
    res = Result()
    E = L.Examiner()
    k = [0]
    try:
        def body(program):
            if k[0] == 0:
                # Hypothesis' first example of a campaign is the all-minimal one (one file, nothing optional, the same in every
                # shard): it is drawn but not evaluated, the campaign has one example more instead
                k[0] = 1
                res.evaluations -= 1
                return
            black = k[0] <= n_black
            k[0] += 1
            hs = 1 + (seed * 31 + (k[0] - 1) * 7919) % 4000000
            fnd = run_program(E, program, black, hs, res)
            for key, what in fnd:
                res.add_finding(key, what, {"key": key, "kind": "program", "program": program.to_json(), "black": black, "hashseed": hs})
            nt, sh = shape_of(program, black)
            if nt and res.counters.get("accepted"):
                res.shape(sh)
                res.count("nontrivial")
            res.count("shape/" + program.shape)
            for c in NEW_CLASSES:
                if c in program.classes:
                    res.count("closures-with/" + c)
            if len(res.samples) < 1:
                res.sample({"shape": program.shape, "options": program.options, "files": list(program.files), "black": black, "hashseed": hs})

        hyp_run(body, st_closures(), seed, n + 1, res, collect=True)
    finally:
        E.close()
        L.cleanup()
    return res


# ------------------------------------------------------------------------------------------------
# (a') history: one process compiles a sequence of different closures; each must come out as from a fresh process

SEQ_KW = [dict(), dict(skeleton=True), dict(skeleton=True, rich=True), dict(rich=True), dict(rich=True, allow=("string-control", "cross-namespace-names")),
          dict(skeleton=True, allow=("alias-of-imported-struct", "alias-of-imported-struct-field", "struct-contains-message", "string-special", "prefix-names"))]


def run_sequence(E: L.Examiner, programs, black: bool, hashseed: int, res: Result = None, faults=None):
    """-> [(key, what, index)]: closure i is compiled by a long-lived worker that has already compiled closures 0..i-1
    and, independently, by a fresh interpreter; the six outputs must be byte-identical.  The combined YAML the worker
    wrote for the LAST closure then goes through the command-line round trip (b)."""
    out = []
    with L.Work() as w:
        worker = L.CompileWorker(cwd=w.sub("worker_cwd"), hashseed=str(hashseed))
        reuser = L.CompileWorker(cwd=w.sub("reuser_cwd"), hashseed=str(hashseed + 1))  # ONE Parser object for the whole sequence
        reused_before = aborted_before = 0
        same_opts = all(p.compile_kwargs() == programs[0].compile_kwargs() for p in programs)
        try:
            compiled_before = 0
            for i, program in enumerate(programs):
                opts = program.compile_kwargs()
                root = program.write(w.sub(f"tree{i}"))
                out_w, out_f = w.sub(f"out_worker{i}"), w.sub(f"out_fresh{i}")
                try:
                    rcw, errw = worker.compile(root, out_w, "gdefs", black, **opts)
                    rcf, errf = L.compile_in_subprocess(root, out_f, "gdefs", w.dir, 0, black, **opts)
                except L.ToolTimeout:
                    if res is not None:
                        res.inconclusive += 1
                    return out
                if rcw != 0 or rcf != 0:
                    if (rcw == 0) != (rcf == 0):
                        out.append(("history/accepted-once", f"closure {i} of a sequence: the long-lived process says rc {rcw} ({errw}), a fresh process rc {rcf}: "
                                    f"{(errf or '').strip().splitlines()[-1:]}", i))
                    elif res is not None:
                        res.count("sequence-closure-not-accepted")
                    continue
                if res is not None:
                    res.count("sequence-closures-compared")
                    if compiled_before:
                        res.count("sequence-closures-after-another")
                        for c in sorted(program.classes):
                            if c in ("derived", "transplant") or c.startswith("derived/"):
                                res.count("sequence-closures-reusing-names/" + c)
                            elif c.startswith("transplant/"):
                                res.count("sequence-closures-reusing-names/transplant/" + ("same-kind" if len(set(c[11:].split("-as-"))) == 1 else "other-kind"))
                        res.shape("seq", program.shape, len(program.files), tuple(sorted(opts.items())), black, compiled_before,
                                  tuple(sorted(c for c in program.classes if c in ("needs-padding", "reuse", "alias-field", "multi-path", "host-id", "string-const",
                                                                                   "reserved-range-dash", "alias-of-imported-struct", "struct-contains-message",
                                                                                   "derived", "transplant") or c.startswith("derived/"))))
                for ext in EXTS:
                    a, b = _read(os.path.join(out_f, "gdefs" + L.OUT_EXT[ext])), _read(os.path.join(out_w, "gdefs" + L.OUT_EXT[ext]))
                    if ext == "txt":
                        a, b = _norm_txt(a), _norm_txt(b)
                    if a != b:
                        out.append((f"history/bytes-differ/{ext}", f"closure {i} compiled by a process that had compiled {compiled_before} other closure(s) before gives a "
                                    f"gdefs{L.OUT_EXT[ext]} different from a fresh process' ({len(a)} vs {len(b)} bytes): {_first_diff(a, b)}", i))
                compiled_before += 1
                # ---- the same closure from a Parser OBJECT that has been used before (clear() + parse() + the six back ends)
                if same_opts:
                    try:
                        if faults and faults[i] is not None:
                            froot = faults[i].write(w.sub(f"tree_fault{i}"))
                            rcx, _e = reuser.compile(froot, w.sub(f"out_fault{i}"), "gdefs", black, reuse_parser=True, **opts)
                            aborted_before += 1 if rcx != 0 else 0
                        out_r = w.sub(f"out_reused{i}")
                        rcr, errr = reuser.compile(root, out_r, "gdefs", black, reuse_parser=True, **opts)
                    except L.ToolTimeout:
                        if res is not None:
                            res.inconclusive += 1
                        return out
                    if rcr != 0:
                        out.append(("history/reused-parser/rejected", f"closure {i}: a Parser object that parsed {reused_before} closure(s) and aborted on {aborted_before} before "
                                    f"(clear() in between) refuses what a fresh parser accepts: {errr}", i))
                    else:
                        for ext in EXTS:
                            a, b = _read(os.path.join(out_f, "gdefs" + L.OUT_EXT[ext])), _read(os.path.join(out_r, "gdefs" + L.OUT_EXT[ext]))
                            if ext == "txt":
                                a, b = _norm_txt(a), _norm_txt(b)
                            if a != b:
                                out.append((f"history/reused-parser/bytes-differ/{ext}", f"closure {i} from a Parser object that parsed {reused_before} other closure(s) and aborted on "
                                            f"{aborted_before} before (clear() in between) gives a gdefs{L.OUT_EXT[ext]} different from a fresh parser's "
                                            f"({len(a)} vs {len(b)} bytes): {_first_diff(a, b)}", i))
                        if res is not None:
                            res.count("reused-parser-closures-compared")
                            if reused_before or aborted_before:
                                res.count("reused-parser-closures-after-another")
                                res.shape("reuse", program.shape, len(program.files), tuple(sorted(opts.items())), reused_before, aborted_before)
                            if aborted_before:
                                res.count("reused-parser-closures-after-aborted-parse")
                    reused_before += 1
                if i == len(programs) - 1:
                    for key, what in roundtrip(E, program, os.path.join(out_w, "gdefs_combined.yaml"), out_f, w, res, tag=f"_seq{i}"):
                        out.append((key.replace("combined/", "combined-late/", 1) if not key.startswith("combined/recompile-fails/") else key,
                                    f"(combined YAML written as closure {i} of a sequence) {what}", i))
        finally:
            worker.close()
            reuser.close()
    return out


def make_sequence(seed, length):
    """-> (programs, faults): all closures of a sequence are compiled with the same three options (one Parser object is
    reused for them); faults[i] is None or a copy of closure i with an injected fault that aborts the parse half way."""
    rnd = random.Random(seed)
    opts = dict(import_coredefs=rnd.random() < 0.5, auto_pad=rnd.random() < 0.75, validate_alignment=rnd.random() < 0.8)
    progs, faults = [], []
    for k in range(length):
        kw = dict(SEQ_KW[rnd.randrange(len(SEQ_KW))], **opts)
        # later closures mostly RE-USE NAMES of the closure before them with another meaning: the same files after name-keeping
        # edits (alias with another base type, struct <-> message, other field lists / constant values / ids), or an unrelated
        # closure whose aliases / structs / messages are called like definitions (of any kind) of the earlier one
        mode = "fresh" if k == 0 else rnd.choice(["derive", "derive", "derive", "transplant", "transplant", "fresh"])
        p = None
        if mode == "derive":
            p = H.derive_closure(progs[-1], G.RandomChooser(rnd.randrange(1 << 30)))
        elif mode == "transplant":
            fresh = G.random_program(rnd.randrange(1 << 30), **kw)
            p = H.transplant_names(fresh, progs[rnd.randrange(len(progs))], G.RandomChooser(rnd.randrange(1 << 30))) or fresh
        if p is None:
            p = G.random_program(rnd.randrange(1 << 30), **kw)
        progs.append(p)
        f = None
        if k > 0 and rnd.random() < 0.5:
            f = G.inject_fault(p, rnd.choice(G.FAULT_KINDS), G.RandomChooser(rnd.randrange(1 << 30)), where=rnd.choice([None, "root", "leaf"]))
        faults.append(f)
    return progs, faults


def shard_sequences(seed, n, idx, n_black):
    res = Result()
    E = L.Examiner()
    rnd = random.Random(seed)
    try:
        for k in range(n):
            sseed, length = rnd.randrange(1 << 30), rnd.choice([2, 2, 3, 3, 4])
            progs, faults = make_sequence(sseed, length)
            black = k < n_black
            hs = 1 + rnd.randrange(4000000)
            fnd = run_sequence(E, progs, black, hs, res, faults)
            res.evaluations += length
            res.count("sequences")
            res.count(f"sequence-length/{length}")
            for key, what, i in fnd:
                # the trace keeps the closures up to the one that failed
                res.add_finding(key, what, {"key": key, "kind": "sequence", "programs": [p.to_json() for p in progs[: i + 1]],
                                             "faults": [f.to_json() if f is not None else None for f in faults[: i + 1]], "black": black, "hashseed": hs})
            if len(res.samples) < 1:
                res.sample({"sequence": [{"shape": p.shape, "options": p.options, "files": len(p.files)} for p in progs], "black": black, "hashseed": hs})
    finally:
        E.close()
        L.cleanup()
    return res


# ------------------------------------------------------------------------------------------------
# (c) shipped core definitions

CORE_FILES = ("core_defs.yaml", "data_logger.yaml", "quick_logger.yaml")


def _pkg():
    return os.path.join(L.REPO_SRC, "pyrtma")


def _strip_doc(tree: ast.Module):
    return ast.dump(tree)


def compare_core(E: L.Examiner, yaml_dir: str):
    """Compile yaml_dir/core_defs.yaml the way the package does and compare with the shipped core_defs.py.
    -> [(aspect, text)]; raises L.CompileError when the YAML does not compile."""
    shipped = os.path.join(_pkg(), "core_defs.py")
    out = []
    with L.Work() as w:
        c = L.compile_program(os.path.join(yaml_dir, "core_defs.yaml"), w.sub("out"), "core_defs", outputs=("py",), import_coredefs=False)
        new_text, old_text = open(c.paths["py"]).read(), open(shipped).read()
        try:
            same = ast.dump(ast.parse(new_text)) == ast.dump(ast.parse(old_text))
        except SyntaxError as e:
            out.append(("syntax", f"{e}"))
            same = True
        if not same:
            la = [l.strip() for l in ast.unparse(ast.parse(new_text)).splitlines()]
            lb = [l.strip() for l in ast.unparse(ast.parse(old_text)).splitlines()]
            d = next((f"compiled now: {x[:100]!r}, shipped: {y[:100]!r}" for x, y in zip(la, lb) if x != y), f"{len(la)} vs {len(lb)} lines")
            out.append(("ast-differs", d))
        va = _py_view(E.py.load(c.paths["py"], fork=True))
        vb = _py_view(E.py.load(shipped, fork=True))
        for aspect, text in diff_py_views(va, vb, "compiled-now", "shipped"):
            out.append(("signature/" + aspect, text))
    return out


def _load_yaml(path):
    from ruamel.yaml import YAML

    with open(path) as f:
        return YAML(typ="safe", pure=True).load(f)


def _dump_yaml(data, path):
    from ruamel.yaml import YAML

    y = YAML(typ="safe", pure=True)
    y.default_flow_style = False
    y.sort_base_mapping_type_on_output = False
    with open(path, "w") as f:
        y.dump(data, f)


TYPE_SWAP = {"int16": "uint16", "int32": "uint32", "uint32": "int32", "double": "int64", "float": "int32", "char": "int8", "int8": "uint8", "uint16": "int16",
             "int64": "double", "uint8": "int8", "uint64": "int64", "byte": "char"}


def gen_edits(docs: dict, rnd: random.Random, n: int):
    """n single edits over the parsed core YAML files.  Each edit = (kind, target, function(docs_copy))."""
    edits = []
    used_ids = {m["id"] for d in docs.values() for m in (d.get("message_defs") or {}).values() if isinstance(m.get("id"), int)}
    places = []
    for fn, d in docs.items():
        for c in (d.get("constants") or {}):
            if isinstance(d["constants"][c], int):
                places.append(("constant-value", fn, c))
        for sec in ("module_ids", "host_ids"):
            for c in (d.get(sec) or {}):
                places.append((sec[:-1] + "-value", fn, c))
        for a in (d.get("aliases") or {}):
            places.append(("alias-target", fn, a))
        for sec in ("struct_defs", "message_defs"):
            for name, m in (d.get(sec) or {}).items():
                if sec == "message_defs" and name != "_RESERVED_":
                    places.append(("message-id", fn, name))
                fl = m.get("fields")
                if isinstance(fl, dict):
                    keys = list(fl)
                    for k in keys:
                        places.append(("field-type", fn, (sec, name, k)))
                        places.append(("field-name", fn, (sec, name, k)))
                        if "[" in fl[k]:
                            places.append(("array-length", fn, (sec, name, k)))
                    for i in range(len(keys) - 1):
                        places.append(("field-order", fn, (sec, name, i)))
    kinds = sorted({p[0] for p in places})
    for i in range(n):
        kind = kinds[i % len(kinds)]
        cand = [p for p in places if p[0] == kind]
        _k, fn, tgt = cand[rnd.randrange(len(cand))]

        def apply(docs2, kind=kind, fn=fn, tgt=tgt):
            d = docs2[fn]
            if kind == "constant-value":
                d["constants"][tgt] += 1
            elif kind in ("module_id-value", "host_id-value"):
                sec = "module_ids" if kind.startswith("module") else "host_ids"
                taken = set(d[sec].values())
                v = d[sec][tgt] + 1
                while v in taken:
                    v += 1
                d[sec][tgt] = v
            elif kind == "alias-target":
                d["aliases"][tgt] = TYPE_SWAP.get(d["aliases"][tgt], "int64")
            elif kind == "message-id":
                v = 9000
                while v in used_ids:
                    v += 1
                d["message_defs"][tgt]["id"] = v
            else:
                sec, name, k = tgt
                fl = d[sec][name]["fields"]
                if kind == "field-type":
                    base = fl[k].split("[")[0].strip()
                    rest = fl[k][len(fl[k].split("[")[0]):]
                    fl[k] = TYPE_SWAP.get(base, "int32" if base != "int32" else "uint32") + rest
                elif kind == "array-length":
                    fl[k] = fl[k].split("[")[0] + "[(" + fl[k].split("[", 1)[1].rsplit("]", 1)[0] + ") + 8]"
                elif kind == "field-name":
                    d[sec][name]["fields"] = {(kk + "_x" if kk == k else kk): vv for kk, vv in fl.items()}
                elif kind == "field-order":
                    keys = list(fl)
                    keys[k], keys[k + 1] = keys[k + 1], keys[k]
                    d[sec][name]["fields"] = {kk: fl[kk] for kk in keys}

        edits.append((kind, f"{fn}:{tgt}", apply))
    return edits


def shard_core(seed, n_edits):
    res = Result()
    E = L.Examiner()
    try:
        core_dir = os.path.join(_pkg(), "core_defs")
        diffs = compare_core(E, core_dir)
        res.evaluations += 1
        res.count("core-compared")
        for aspect, text in diffs:
            res.add_finding(f"core/{aspect}", f"the shipped core_defs.py is not what the compiler produces from the shipped core YAML files: {text}"[:400],
                            {"key": f"core/{aspect}", "kind": "core"})
        if diffs:
            return res  # the sensitivity runs need an equal baseline
        docs = {fn: _load_yaml(os.path.join(core_dir, fn)) for fn in CORE_FILES}
        rnd = random.Random(seed)
        with L.Work() as w:
            # the edit pipeline itself (load + dump of the YAML) must not change anything
            d0 = w.sub("edit0")
            for fn in CORE_FILES:
                _dump_yaml(docs[fn], os.path.join(d0, fn))
            base = compare_core(E, d0)
            # a re-dumped file has the same definitions; the hashed text is rebuilt from the loaded data, so nothing may differ
            if base:
                raise HarnessError(f"re-dumping the core YAML unchanged already changes the comparison: {base[:2]}")
            res.evaluations += 1
            for i, (kind, target, apply) in enumerate(gen_edits(docs, rnd, n_edits)):
                d2 = copy.deepcopy(docs)
                apply(d2)
                di = w.sub(f"edit{i + 1}")
                for fn in CORE_FILES:
                    _dump_yaml(d2[fn], os.path.join(di, fn))
                res.evaluations += 1
                try:
                    dd = compare_core(E, di)
                except L.CompileError as e:
                    res.count("edit-rejected-by-compiler/" + kind)
                    continue
                if not dd:
                    raise HarnessError(f"the core comparison did not notice the edit {kind} at {target}")
                res.count("edit-detected/" + kind)
                res.shape("core-edit", kind, target)
                shutil.rmtree(di, ignore_errors=True)
        res.notes.append("(c) is a single case; its sensitivity: every generated single edit of a scratch copy of the core YAML made the comparison fail")
    finally:
        E.close()
        L.cleanup()
    return res


def shard_covers(seed, idx, n):
    """Covering closures through (a) + (b): every text of the generator's string vocabulary as a string constant (texts of several lines
    whose lines look like YAML - host:port, key: value, - item, # text, block / flow indicators -, control characters, quotes, leading and
    trailing blanks; half of the texts per job) and every accepted way of calling a definition like a definition of another namespace."""
    res = Result()
    E = L.Examiner()
    try:
        core = bool(idx % 2)
        from checks.c04 import dependency_diamond_program, import_diamond_program

        for tag, program in (("string-cover", G.build_string_cover_program(core, part=idx, parts=n)), ("cross-namespace-cover", G.build_cross_namespace_cover_program(not core)),
                             ("dependency-diamond-cover", dependency_diamond_program(core, idx % 2)), ("import-diamond-cover", import_diamond_program(not core))):
            hs = 1 + (seed * 17 + idx) % 4000000
            for key, what in run_program(E, program, False, hs, res):
                res.add_finding(key, what, {"key": key, "kind": "program", "program": program.to_json(), "black": False, "hashseed": hs})
            res.evaluations += 1
            res.count("covering-closures/" + tag)
            res.shape("cover", tag, core)
    finally:
        E.close()
        L.cleanup()
    return res


def shard(kind, *a):
    return {"core": shard_core, "programs": shard_programs, "sequences": shard_sequences, "covers": shard_covers}[kind](*a)


def run(ctx: RunContext) -> int:
    t0 = time.time()
    n = ctx.scale(2, 38)
    ncore = 1 if ctx.quick else 4
    jobs = [("core", derive_seed(ctx.seed, 99 + j), ctx.scale(12, 200) // ncore) for j in range(ncore)]
    for i in range(16):
        n_black = (1 if i < 4 else 0) if ctx.quick else 2
        jobs.append(("programs", derive_seed(ctx.seed, i), n, i, n_black))
    nseq_jobs = 8 if ctx.quick else 16
    for i in range(nseq_jobs):
        jobs.append(("sequences", derive_seed(ctx.seed, 200 + i), ctx.scale(1, 6), i, 1 if i == 0 else 0))
    for i in range(2):
        jobs.append(("covers", derive_seed(ctx.seed, 300 + i), i, 2))
    res = run_shards(shard, jobs)
    return conclude(ctx, res, RULE, ASSUME, t0)


def replay_trace(trace: dict):
    E = L.Examiner()
    try:
        if trace.get("kind") == "sequence":
            progs = [G.Program.from_json(p) for p in trace["programs"]]
            faults = [G.Program.from_json(f) if f else None for f in trace.get("faults") or [None] * len(progs)]
            fnd = [(k, w) for k, w, _i in run_sequence(E, progs, trace.get("black", False), trace.get("hashseed", 12345), None, faults)]
        elif trace.get("kind") == "roundtrip":
            fnd = run_roundtrip(E, G.Program.from_json(trace["program"]))
        elif trace.get("kind") == "core":
            fnd = [(f"core/{a}", t) for a, t in compare_core(E, os.path.join(_pkg(), "core_defs"))]
        else:
            fnd = run_program(E, G.Program.from_json(trace["program"]), trace.get("black", False), trace.get("hashseed", 12345), None)
    finally:
        E.close()
        L.cleanup()
    for key, what in fnd:
        if key == trace.get("key"):
            raise Violation(key, what, trace)
