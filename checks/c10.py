"""C10 - serialisation round trips are the identity (Engine C, in-process message PBT)."""
from __future__ import annotations

import ctypes
import functools
import json
import os
import sys
import math
import re
import time

from hypothesis import strategies as st

from pyrtma.header import MessageHeader, TimeCodeMessageHeader
import pyrtma
import pyrtma.message as _pm
from pyrtma.message import Message
from pyrtma.message_base import MessageBase, RTMAJSONEncoder
from pyrtma.message_data import MessageData

from vlib import msgs
from vlib.common import HarnessError, Result, RunContext, Violation, conclude, derive_seed, hyp_run, run_shards
from vlib.msgs import FI, dec, enc

RULE = (
    "Hypothesis draws a class (56 core MDFs + 5 core structs, the hand-written family with every validator kind at "
    "several widths/lengths incl. nested structs and struct arrays, or a class built from a drawn field list) and up to 10 "
    "distinct fields (reached through nested structs / struct-array elements) each assigned 1-3 times through the validated "
    "API, so the value is the result of a HISTORY of stores (longer string then shorter or '', different array contents, a "
    "slice after whole-array stores, whole nested structs / struct-array elements replaced and sub-fields reassigned); in half of "
    "the histories the conversions are also run at 1-2 drawn intermediate points ON THE SAME OBJECT(S) - one Message object for "
    "the whole history, header fields changed and msg.data replaced before the last conversion - each result checked against "
    "the object's current bytes - arrays in a drawn form: whole array, element by element, or slice by slice, falling back to elements when the "
    "whole/slice form is refused - with an in-domain value (extremes, -0.0, NaN, denormals, empty and maximum-length strings, control characters, "
    "quotes, all-0x00/0xFF byte arrays, full-length arrays; a quarter of the string values - and some byte arrays, as text - are "
    "joined from pieces that LOOK like JSON / Python / YAML syntax: lists of numbers with padding blanks, tabs or line breaks inside "
    "the brackets and after the commas ('[ 1, 2, 3 ]', '[ 7 ]', '[ -1.5e+3,  2 ]', '{ 1.5,\\t12 }'), brackets, braces, quotes, "
    "backslashes and spelled-out escapes (backslash + n as two characters, \\u0041), colons, commas, NaN / Infinity / null / true, "
    "runs of blanks, leading and trailing blanks; counted as special:syntax-like / special:padded-number-list); five independent campaigns check one route each: "
    "from_buffer_copy + copy (equal, storage-disjoint in both directions; copy called through the instance's own class AND "
    "through every base class it inherits the classmethod from - MessageData / MessageBase for definitions, MessageHeader / "
    "MessageBase for a timecode header: the copy must be of the instance's class and equal to it), from_dict(to_dict()), from_json(to_json(minify in "
    "{F,T})), dict/JSON with strings spelled as character lists, and Message(header, data) through Message.to_json/"
    "from_json/to_dict/copy with either header layout (MessageHeader or TimeCodeMessageHeader with utc fields over uint32; the "
    "header alone also goes through to_dict/from_dict/to_json/from_json/copy; the same header class must come back) and every header field drawn independently over its domain (num_data_bytes in {0, type size, "
    "other, negative}, not tied to the data; msg_type fixed to the class id; version 0 or the type hash), plus refusal of a "
    "non-zero foreign version. A sixth campaign draws registry histories: 2-4 registrations through pyrtma.message_def of "
    "classes with ONE type id but different layouts/hashes (or the same class again), with lookups (get_msg_cls, Message "
    "round trips, foreign versions incl. the previous class's hash) in between; after each registration the round trip and "
    "the refusal are judged against the class registered last; the registry entry is restored after every case. "
    "Non-trivial = an instance with >=1 non-default field among {NaN, -0.0, extreme, denormal, control char/quote, "
    "syntax-like text, padded number list in a string, max-length string, all-0xFF bytes, field inside a struct-array element}; distinct = (route, class source, set of "
    "(special class, field kind))."
)
ASSUME = [
    "instances are built from a fresh object by a history of validated assignments; nothing is asserted about what the bytes "
    "behind a string's terminator 'should' be, only that the bytes/dict/JSON/copy round trips return the same bytes; strings "
    "contain no embedded NUL",
    "NaN means float('nan') (positive quiet NaN): JSON has one NaN spelling, so the sign/payload of other NaNs is outside "
    "the stated domain",
    "a scalar/string value the validated API refuses is not 'constructible' and is skipped (counted as set-refused; C09 owns "
    "that); an array refused as a whole or as a slice is built element by element instead, a refused element stays 0: whatever "
    "state results was constructed through the validated API and must round-trip",
    "the character-list spelling of strings is the one message_base._from_dict documents ('list of characters is equivalent "
    "to str', produced by non-Python encoders); it is checked as its own campaign with its own keys",
    "'refused' for a foreign version hash means any exception from Message.from_json",
    "storage disjointness is checked by overwriting every byte of one side through ctypes.memmove and comparing the other",
    "header plus data is checked with both header layouts (MessageHeader, TimeCodeMessageHeader) and each header alone",
    "copy is a classmethod annotated copy(cls: Type[MB], m: MB) -> MB and documented as 'Generate a copy of a message "
    "structure': any class of which m is an instance is a legal receiver, and what comes back has to be a copy OF m (m's class, "
    "m's bytes), like Message.copy since repair 1799472. A receiver class of which m is NOT an instance (MDF_A.copy(mdf_b), "
    "copy(bytes)) is a reinterpreting cast, outside the property, and not generated",
    "the content of a String field is opaque: text that looks like JSON / Python / YAML syntax is in the domain like any other "
    "ASCII text ('every field value in its domain ... control characters and quotes in strings')",
]

ROUTES = ["buffer-copy", "dict", "json", "charlist", "message"]
LEAF_KINDS = frozenset(["int", "float", "char", "byte", "str", "bytes", "iarr", "farr"])
_NAN = float("nan")

# ------------------------------------------------------------------------------------------------
# executor + oracles


def _locate(cls: type, off: int) -> str:
    """Kind of the leaf field covering byte `off` (root-cause bucket for a byte difference)."""
    if issubclass(cls, MessageHeader):
        return "header-base-fields" if off < ctypes.sizeof(MessageHeader) else "header-timecode-fields"
    for fi in msgs.fields_of(cls):
        if fi.off <= off < fi.off + fi.size:
            if fi.kind == "struct":
                return _locate(fi.scls, off - fi.off)
            if fi.kind == "sarr":
                return "struct-array-element"
            return fi.kind + ("-" + fi.code if fi.code and fi.kind in ("int", "float", "iarr", "farr") else "")
    return "padding"


_EARLIER: list = []  # byte images the object under test had at earlier checkpoints of the current case


def _same(route: str, what: str, cls: type, got, want: bytes, trace: dict):
    if not isinstance(got, cls) or type(got) is not cls:
        raise Violation(f"{route}/wrong-type", f"{what}: result is {type(got).__name__}, expected {cls.__name__}", trace)
    g = bytes(got)
    if g != want:
        off = next((i for i, (a, b) in enumerate(zip(g, want)) if a != b), min(len(g), len(want)))
        where = _locate(cls, off)
        if any(g == e for e in _EARLIER):
            # the result is the image of an EARLIER state of the same object: a conversion that was not redone
            raise Violation(f"{route}/stale-result-of-earlier-state",
                            f"{what}: returns the {cls.__name__} the object held at an earlier conversion, not its current value "
                            f"(first difference at byte {off}, {where})", trace)
        if what.startswith("Message.from_json(...).data") and not any(g) and sum(1 for x in want if x) > 1:
            where = "whole-object-zero"  # the content was dropped as a whole, not one field mis-converted
        raise Violation(f"{route}/bytes-differ/{where}",
                        f"{what}: {cls.__name__} differs at byte {off} ({where}): got {g[off:off + 8].hex()} expected {want[off:off + 8].hex()}",
                        trace)


def _call(route: str, what: str, trace: dict, fn, *a, **kw):
    try:
        return fn(*a, **kw)
    except Exception as e:
        tag = re.sub(r"[^A-Za-z_.].*", "", what)
        raise Violation(f"{route}/raises/{tag}/{type(e).__name__}", f"{what} raised {type(e).__name__}: {str(e)[:200]}", trace)


def _disjoint(route: str, what: str, a, b, trace: dict):
    """a and b are equal ctypes objects; writing every byte of one must not change the other."""
    if a is b:
        raise Violation(f"{route}/copy-is-same-object", f"{what}: the copy is the source object itself", trace)
    n = ctypes.sizeof(a)
    if n == 0:
        return
    orig = bytes(a)
    flipped = bytes(x ^ 0xFF for x in orig)
    for src, dst, name in ((a, b, "source"), (b, a, "copy")):
        ctypes.memmove(ctypes.addressof(src), flipped, n)
        other = bytes(dst)
        ctypes.memmove(ctypes.addressof(src), orig, n)
        if other != orig:
            raise Violation(f"{route}/copy-shares-storage", f"{what}: writing the {name} changed the other object", trace)


def _copy_bases(cls: type) -> list:
    """The proper base classes of cls through which `copy` can be called with an instance of cls (the classmethod's
    signature is copy(cls: Type[MB], m: MB) -> MB, and an instance of a subclass is an instance of the base):
    MessageHeader for a timecode header, MessageData for every message definition, MessageBase for everything."""
    return [k for k in cls.__mro__[1:] if isinstance(k, type) and issubclass(k, MessageBase)]


def _copy_through_bases(route: str, trace: dict, res: Result, cls: type, obj, want: bytes):
    """A copy made through a base class of the instance's class is a copy of the instance all the same: same class, equal
    bytes (MessageBase.__eq__ compares exactly that), no shared storage."""
    for base in _copy_bases(cls):
        c = _call(route, f"{base.__name__}.copy(instance of a subclass)", trace, base.copy, obj)
        what = f"{base.__name__}.copy(<{cls.__name__} instance>)"
        if type(c) is not cls or bytes(c) != want:
            kind = "header" if issubclass(cls, MessageHeader) else "data"
            raise Violation(f"{route}/copy-through-base-class-differs/{kind}",
                            f"{what}: the copy is a {type(c).__name__} of {ctypes.sizeof(c)} bytes, the source a {cls.__name__} of "
                            f"{len(want)} bytes; copy == source is {c == obj}", trace)
        _disjoint(route, what, obj, c, trace)
        res.count(f"{route}:copy-through-base:{base.__name__}")


def _prelude(trace):
    """An earlier to_json call with a keyword argument for json.dumps, on an unrelated all-zero message (finite, ASCII).
    Whether that call itself is accepted is not judged (the keyword may clash with one the method passes itself)."""
    kw = {"allow_nan": {"allow_nan": False}, "ensure_ascii": {"ensure_ascii": False}, "sort_keys": {"sort_keys": True},
          "separators": {"separators": (", ", " : ")}}.get(trace.get("prelude"))
    if not kw:
        return
    from pyrtma.core_defs import MDF_CLIENT_INFO
    from pyrtma.message import Message, get_header_cls

    for mini in (False, True):
        for obj in (MDF_CLIENT_INFO(), Message(get_header_cls(False)(), MDF_CLIENT_INFO())):
            try:
                obj.to_json(minify=mini, **kw)
            except Exception:  # noqa
                pass


def _charlist(cls: type, d: dict) -> int:
    """Rewrite (in place) every String field of dict d as a list of characters; returns how many."""
    n = 0
    for fi in msgs.fields_of(cls):
        if fi.kind == "str":
            d[fi.name] = list(d[fi.name])
            n += 1
        elif fi.kind == "struct":
            n += _charlist(fi.scls, d[fi.name])
        elif fi.kind == "sarr":
            for e in d[fi.name]:
                n += _charlist(fi.scls, e)
    return n


def _specials(fi: FI, v) -> set:
    out = set()
    vals = list(v) if isinstance(v, (list, tuple, bytes, bytearray)) else [v]
    k = fi.kind
    for x in vals:
        if k in ("float", "farr") and isinstance(x, float):
            if math.isnan(x):
                out.add("nan")
            elif x == 0.0 and math.copysign(1.0, x) < 0:
                out.add("negzero")
            elif abs(x) >= (msgs.FLT_MAX if fi.code == "f32" else msgs.DBL_MAX):
                out.add("extreme")
            elif x != 0.0 and abs(x) < (1.2e-38 if fi.code == "f32" else 2.3e-308):
                out.add("denormal")
        elif k in ("int", "iarr", "byte", "bytes") and isinstance(x, int):
            lo, hi = msgs.INT_RANGE[fi.code if k in ("int", "iarr") else "byte"]
            if x in (lo, hi) and x != 0:
                out.add("extreme")
        elif k in ("str", "char") and isinstance(x, str):
            if any(ord(c) < 32 or c in "\"'\\\x7f" for c in x):
                out.add("ctrl")
            if k == "str" and len(x) == fi.n - 1:
                out.add("maxlen")
            if k == "str" and msgs.looks_like_syntax(x):
                out.add("syntax-like")
                if _PADDED_LIST.search(x):
                    out.add("padded-number-list")
    if k == "bytes" and vals and all(x == 255 for x in vals if isinstance(x, int)):
        out.add("allff")
    return out


# text content that looks like a list of numbers written with padding white space: "[ 1, 2 ]", "{ 7 }", "[\n  1,\n  2\n]"
_PADDED_LIST = re.compile(r"[\[{(]\s+[-0-9NI][-+.0-9eEa-zA-Z]*(,\s*[-0-9NI][-+.0-9eEa-zA-Z]*)*\s+[\]})]")

ARRAY_KINDS = ("iarr", "farr", "bytes")


def _assign(c, fi: FI, v, how: str, res: Result, k=None):
    """Store v in field fi of container c through the validated API in the drawn form: whole field, element by element,
    or slice by slice.  A whole-array / slice assignment that is refused falls back to element assignment, so every value
    constructible through ANY form is constructed.  Returns the value actually stored (refused elements stay 0) or None."""
    if fi.kind == "sarr":  # one element of a struct array replaced by a struct instance
        try:
            getattr(c, fi.name)[k] = v
        except Exception:
            res.count("set-refused:sarr-item")
            return None
        res.count("set:sarr:item")
        return v
    if fi.kind in ARRAY_KINDS and how == "part":  # a sub-slice stored after (or instead of) whole-array stores
        try:
            getattr(c, fi.name)[k[0]:k[1]] = v
        except Exception:
            res.count("set-refused:" + fi.kind + ":part")
            return None
        res.count("set:" + fi.kind + ":part")
        return list(v)
    if fi.kind not in ARRAY_KINDS:
        try:
            setattr(c, fi.name, v)
        except Exception:
            res.count("set-refused:" + fi.kind)
            return None
        res.count("set:" + fi.kind)
        return v
    elems = list(v)
    if len(elems) != fi.n:
        raise HarnessError(f"C10 array value of length {len(elems)} for {fi}")
    if how == "whole":
        try:
            setattr(c, fi.name, v)
            res.count("set:" + fi.kind + ":whole")
            return elems
        except Exception:
            res.count("whole-array-refused-fallback-to-elements:" + fi.kind)
    elif how == "slices":
        h = fi.n // 2
        ok = True
        for lo, hi in ((0, h), (h, fi.n)):
            if lo == hi:
                continue
            try:
                getattr(c, fi.name)[lo:hi] = elems[lo:hi]
            except Exception:
                ok = False
        if ok:
            res.count("set:" + fi.kind + ":slices")
            return elems
        res.count("slice-refused-fallback-to-elements:" + fi.kind)
    elif how != "items":
        raise HarnessError(f"unknown assignment form {how}")
    stored = []
    for i, e in enumerate(elems):
        try:
            getattr(c, fi.name)[i] = e
            stored.append(e)
        except Exception:
            res.count("element-refused:" + fi.kind)
            stored.append(0)
    res.count("set:" + fi.kind + ":items")
    return stored


def apply_set(m, s: dict, res: Result, marks: set, seen: dict):
    """One validated store of the history."""
    key = json.dumps([s["p"], s["f"]])
    seen[key] = seen.get(key, 0) + 1
    c, ccls, _off = msgs.walk(m, s["p"])
    fi = msgs.field(ccls, s["f"])
    v = dec(s["v"])
    v = _assign(c, fi, v, s.get("how", "whole"), res, s.get("k"))
    if v is None:
        return
    if seen[key] > 1:
        res.count("history:reassigned:" + fi.kind)
        marks.add(("reassigned", fi.kind))
    if fi.kind in ("struct", "sarr"):
        marks.add(("struct-assigned", fi.kind))
        return
    sp = _specials(fi, v)
    if sp and any(len(p) == 2 for p in s["p"]):
        sp.add("in-struct-array")
    if any(len(p) == 2 for p in s["p"]) and bytes(c) != bytes(type(c)()):
        marks.add(("in-struct-array", fi.kind))
    for x in sp:
        marks.add((x, fi.kind + (fi.code or "")))


def build_instance(trace: dict, res: Result):
    cls = msgs.resolve(trace["cls"])
    m = cls()
    marks, seen = set(), {}
    for s in trace["sets"]:
        apply_set(m, s, res, marks, seen)
    return cls, m, marks


ASSERT_TIMECODE_COPY = True
# Message.copy() of a message with a TimeCodeMessageHeader used to return a plain MessageHeader without the utc fields
# (repaired in /repo 1799472); the copy's header is asserted for both layouts.


def _set_header(trace: dict, cls: type, version: int):
    h = TimeCodeMessageHeader() if trace.get("tc") else MessageHeader()
    h.num_data_bytes = ctypes.sizeof(cls)  # default of traces that do not draw it
    for name, v in trace.get("hdr", {}).items():
        setattr(h, name, dec(v))  # every header field is a free value of its own domain (num_data_bytes too)
    h.msg_type = cls.type_id  # the one field that must name the class
    h.version = version
    return h


REGISTRY_IDS = [30001, 30002]  # type ids used for registry histories (no core / family / generated class has them)
KEY_STALE = "registry/stale-class-after-re-registration"
_MISSING = object()


def _clear_lookup_cache():
    cc = getattr(_pm.get_msg_cls, "cache_clear", None)  # should the lookup be memoised: every case starts and ends clean
    if cc is not None:
        cc()


def run_registry_case(trace: dict, res: Result):
    """History on the message registry: classes of ONE type id but different layouts / hashes are registered one after
    the other through the public decorator, with lookups in between; after each registration the header-plus-data
    round trip and the refusal of a foreign version are judged against the class registered NOW."""
    route = "registry"
    tid = trace["id"]
    saved = _pm._msg_defs.get(tid, _MISSING)
    _clear_lookup_cache()
    sig = []
    try:
        prev = None
        for gi, g in enumerate(trace["gens"]):
            cls = msgs.resolve({"spec": g["spec"], "rid": tid})
            pyrtma.message_def(cls)  # the way definition modules register their classes
            sig.append("same" if cls is prev else "new")
            m = cls()
            marks, seen = set(), {}
            for s_ in g["sets"]:
                apply_set(m, s_, res, marks, seen)
            b = bytes(m)
            ops = list(g["ops"]) + [["rt", True, True], ["foreign", "prev"], ["foreign", 0x5EED5EED]]
            try:
                for op in ops:
                    sig.append(op[0])
                    if op[0] == "get":
                        _call(route, "get_msg_cls(id)", trace, _pm.get_msg_cls, tid)  # a lookup; judged through the round trips
                        continue
                    if op[0] == "rt":
                        h = MessageHeader()
                        h.msg_type = tid
                        h.num_data_bytes = len(b)
                        h.version = cls.type_hash if op[1] else 0
                        hb = bytes(h)
                        s = _call(route, "Message.to_json()", trace, Message(h, m).to_json, minify=bool(op[2]))
                        r = _call(route, f"Message.from_json(version={'hash' if op[1] else 0}) [generation {gi}]", trace, Message.from_json, s)
                        _same(route, "Message.from_json(...).header", MessageHeader, r.header, hb, trace)
                        _same(route, f"Message.from_json(...).data [generation {gi}]", cls, r.data, b, trace)
                        res.count("registry:round-trip")
                        continue
                    bad = op[1]
                    if bad == "prev":
                        bad = prev.type_hash if prev is not None else 0
                    if bad in (0, cls.type_hash):
                        continue
                    h = MessageHeader()
                    h.msg_type = tid
                    h.version = bad
                    s = _call(route, "Message.to_json(foreign version)", trace, Message(h, m).to_json, minify=True)
                    try:
                        Message.from_json(s)
                    except Exception:
                        res.count("registry:foreign-version-refused" + (":outdated-hash" if op[1] == "prev" else ""))
                    else:
                        raise Violation(f"{route}/foreign-version-accepted",
                                        f"{cls.__name__} (generation {gi}): header version {bad:#x} != registered hash {cls.type_hash:#x} "
                                        f"was decoded without error", trace)
            except Violation as v:
                try:
                    now = _pm.get_msg_cls(tid)
                except Exception:
                    now = None
                if gi > 0 and now is not cls:
                    raise Violation(KEY_STALE, f"after {gi + 1} registrations for type id {tid} (ops {' '.join(sig)}) the lookup still yields "
                                    f"{getattr(now, '__name__', now)} instead of the class registered last, {cls.__name__}: {v.what}", trace)
                raise
            prev = cls
    finally:
        if saved is _MISSING:
            _pm._msg_defs.pop(tid, None)
        else:
            _pm._msg_defs[tid] = saved
        _clear_lookup_cache()
    kinds = [x for x in sig if x in ("same", "new")]
    if kinds.count("new") > 1:
        res.shape(route, " ".join(sig))
        res.count("nontrivial")
        res.count("registry:re-registration-with-different-class")
        if any(sig[i] in ("get", "rt") for i in range(1, len(sig))):
            res.sample({"route": route, "history": " ".join(sig)}, limit=5)


def run_case(trace: dict, res: Result):
    """Apply the history; run the route's round-trip oracle at every checkpoint (after the stores whose index is in
    trace["cp"]) and at the end - always on the SAME objects, against their CURRENT bytes."""
    route = trace["sub"]
    if route == "registry":
        return run_registry_case(trace, res)
    cls = msgs.resolve(trace["cls"])
    m = cls()
    marks, seen = set(), {}
    st_ = {"h": None, "msg": None, "earlier_m": [], "earlier_h": []}
    cps = set(trace.get("cp", []))
    n_cp = 0
    for i, s_ in enumerate(trace["sets"]):
        apply_set(m, s_, res, marks, seen)
        if i in cps and i != len(trace["sets"]) - 1:
            check_route(trace, res, cls, m, marks, st_, final=False)
            n_cp += 1
    if n_cp:
        res.count(f"{route}:conversions-repeated-after-mutation", n_cp)
        marks.add(("reconverted-after-mutation", route))
    del _EARLIER[:]
    check_route(trace, res, cls, m, marks, st_, final=True)


def check_route(trace: dict, res: Result, cls: type, m, marks: set, st_: dict, final: bool):
    route = trace["sub"]
    b = bytes(m)
    name = cls.__name__
    _EARLIER[:] = [e for e in st_["earlier_m"] if e != b]
    st_["earlier_m"].append(b)
    if not final:
        res.count(f"{route}:checkpoint")
    if final:
        res.count(f"{route}:class:{msgs.ref_class_kind(trace['cls'])}")
        if "core" in trace["cls"]:
            res.count("core:" + trace["cls"]["core"])
    if route == "buffer-copy":
        m2 = _call(route, "from_buffer_copy(bytes)", trace, cls.from_buffer_copy, b)
        _same(route, f"{name}.from_buffer_copy(bytes(m))", cls, m2, b, trace)
        if not (m2 == m):
            raise Violation(f"{route}/eq-false", f"{name}: equal bytes but == is False", trace)
        c = _call(route, "copy(m)", trace, cls.copy, m)
        _same(route, f"{name}.copy(m)", cls, c, b, trace)
        _disjoint(route, f"{name}.copy(m)", m, c, trace)
        _copy_through_bases(route, trace, res, cls, m, b)
    elif route == "dict":
        d = _call(route, "to_dict()", trace, m.to_dict)
        m2 = _call(route, "from_dict(to_dict())", trace, cls.from_dict, d)
        _same(route, f"{name}.from_dict(m.to_dict())", cls, m2, b, trace)
        if bytes(m) != b:
            raise Violation(f"{route}/source-modified", f"{name}: to_dict/from_dict modified the source message", trace)
    elif route == "json":
        _prelude(trace)
        for mini in (False, True):
            s = _call(route, f"to_json(minify={mini})", trace, m.to_json, minify=mini)
            if not isinstance(s, str):
                raise Violation(f"{route}/not-a-string", f"{name}.to_json returned {type(s).__name__}", trace)
            m2 = _call(route, f"from_json(to_json(minify={mini}))", trace, cls.from_json, s)
            _same(route, f"{name}.from_json(m.to_json(minify={mini}))", cls, m2, b, trace)
    elif route == "charlist":
        d = _call(route, "to_dict()", trace, m.to_dict)
        n = _charlist(cls, d)
        res.count("charlist:strings-rewritten", n)
        s = _call(route, "json.dumps(char-list dict)", trace, json.dumps, d, cls=RTMAJSONEncoder)
        m2 = _call(route, "from_dict(char-list dict)", trace, cls.from_dict, d)
        _same(route, f"{name}.from_dict(dict with strings as character lists)", cls, m2, b, trace)
        m3 = _call(route, "from_json(char-list json)", trace, cls.from_json, s)
        _same(route, f"{name}.from_json(JSON with strings as character lists)", cls, m3, b, trace)
    elif route == "message":
        if not issubclass(cls, MessageData):
            raise HarnessError("message route needs a MessageData class")
        good = cls.type_hash if trace["ver"] else 0
        if st_["msg"] is None:
            st_["h"] = _set_header(trace, cls, good)
            st_["msg"] = Message(st_["h"], m)  # ONE Message object for the whole history
        h, msg = st_["h"], st_["msg"]
        if final:
            for name_, v in trace.get("hmut", {}).items():  # header fields changed after the earlier conversions
                if name_ not in ("msg_type", "reserved"):
                    setattr(h, name_, dec(v))
            if trace.get("swap"):  # msg.data replaced by an equal object
                msg.data = cls.from_buffer_copy(m)
                m = msg.data
        hb = bytes(h)
        keep_m = list(_EARLIER)
        _EARLIER[:] = [e for e in st_["earlier_h"] if e != hb]
        st_["earlier_h"].append(hb)
        hcls = type(h)
        hname = hcls.__name__
        res.count("message:header:" + hname)
        # the header alone
        _same(route, f"{hname}.from_dict(h.to_dict())", hcls,
              _call(route, f"{hname}.from_dict(to_dict())", trace, hcls.from_dict, _call(route, f"{hname}.to_dict()", trace, h.to_dict)),
              hb, trace)
        for mini in (False, True):
            s = _call(route, f"{hname}.to_json(minify={mini})", trace, h.to_json, minify=mini)
            _same(route, f"{hname}.from_json(h.to_json(minify={mini}))", hcls,
                  _call(route, f"{hname}.from_json(to_json())", trace, hcls.from_json, s), hb, trace)
        hc = _call(route, f"{hname}.copy(h)", trace, hcls.copy, h)
        _same(route, f"{hname}.copy(h)", hcls, hc, hb, trace)
        _disjoint(route, f"{hname}.copy(h)", h, hc, trace)
        _copy_through_bases(route, trace, res, hcls, h, hb)
        _prelude(trace)
        for mini in (False, True):
            s = _call(route, f"Message.to_json(minify={mini})", trace, msg.to_json, minify=mini)
            r = _call(route, f"Message.from_json(version={'hash' if trace['ver'] else 0})", trace, Message.from_json, s)
            _same(route, f"Message.from_json(...).header [{hname}]", hcls, r.header, hb, trace)
            _EARLIER[:] = keep_m
            _same(route, "Message.from_json(...).data", cls, r.data, b, trace)
            _EARLIER[:] = [e for e in st_["earlier_h"] if e != hb]
            if not (r == msg):
                raise Violation(f"{route}/eq-false", f"{name}: Message round trip equal bytes but == is False", trace)
        d = _call(route, "Message.to_dict()", trace, msg.to_dict)
        _same(route, f"{hname}.from_dict(Message.to_dict()['header'])", hcls,
              _call(route, f"{hname}.from_dict", trace, hcls.from_dict, d["header"]), hb, trace)
        _EARLIER[:] = keep_m
        _same(route, "cls.from_dict(Message.to_dict()['data'])", cls,
              _call(route, "from_dict(Message.to_dict()['data'])", trace, cls.from_dict, d["data"]), b, trace)
        if not final:
            return
        # foreign version hash
        bad = trace["badver"]
        if bad in (0, cls.type_hash):
            bad = (cls.type_hash ^ 1) or 2
        hbad = _set_header(trace, cls, bad)
        s = _call(route, "Message.to_json(foreign version)", trace, Message(hbad, m).to_json, minify=True)
        try:
            Message.from_json(s)
        except Exception:
            res.count("message:foreign-version-refused")
        else:
            raise Violation(f"{route}/foreign-version-accepted",
                            f"{name}: header version {bad:#x} != local hash {cls.type_hash:#x} was decoded without error", trace)
        # copy
        c = _call(route, "Message.copy(msg)", trace, Message.copy, msg)
        if not isinstance(c, Message):
            raise Violation(f"{route}/wrong-type", f"Message.copy returned {type(c).__name__}", trace)
        if hcls is MessageHeader or ASSERT_TIMECODE_COPY:
            _same(route, f"Message.copy(msg).header [{hname}]", hcls, c.header, hb, trace)
        elif type(c.header) is not hcls or bytes(c.header) != hb:
            res.count("message:timecode-copy-header-truncated (observed, not asserted)")
        _same(route, "Message.copy(msg).data", cls, c.data, b, trace)
        if c.header is msg.header:
            raise Violation(f"{route}/copy-is-same-object", "Message.copy(msg).header is the source header object", trace)
        if type(c.header) is hcls:
            _disjoint(route, "Message.copy(msg).header", msg.header, c.header, trace)
        _disjoint(route, "Message.copy(msg).data", msg.data, c.data, trace)
        if bytes(m) != b or bytes(h) != hb:
            raise Violation(f"{route}/source-modified", f"{name}: the round trips modified the source message", trace)
    else:
        raise HarnessError(route)
    if not final:
        return
    if route == "message" and trace.get("tc"):
        marks = set(marks) | {("timecode-header", "hdr")}
    if route == "message":
        ndb = dec(trace["hdr"]["num_data_bytes"]) if "num_data_bytes" in trace.get("hdr", {}) else None
        size = ctypes.sizeof(cls)
        res.count("message:num_data_bytes:" + ("default" if ndb is None else "zero" if ndb == 0 else "type-size" if ndb == size
                                                 else "negative" if ndb < 0 else "other"))
        if ndb == 0 and any(b):
            res.count("message:num_data_bytes-zero-with-nonzero-data")
            marks = set(marks) | {("hdr-num_data_bytes-0", "data-nonzero")}
    if marks:
        res.shape(route, msgs.ref_class_kind(trace["cls"]), tuple(sorted(marks)))
        res.count("nontrivial")
        for x in {k for k, _ in marks}:
            res.count("special:" + x)
        res.sample({"route": route, "class": name, "specials": sorted(f"{a}@{k}" for a, k in marks)}, limit=5)


# ------------------------------------------------------------------------------------------------
# strategies


@functools.lru_cache(maxsize=8192)
def _value(fi: FI):
    """In-domain value (encoded) for C10: C09's in-domain sets plus NaN and the all-0x00/0xFF byte arrays."""
    base = msgs.field_in(fi)
    if fi.kind == "float":
        return st.one_of(base, base, st.just(enc(_NAN)))
    if fi.kind == "farr":
        return st.one_of(base, _with_nan(base))
    if fi.kind == "bytes":
        # ... and byte arrays that hold TEXT (syntax-like, see msgs.syntax_text) padded with NULs or blanks to the field length
        text = st.tuples(msgs.syntax_text(fi.n), st.sampled_from([b"\0", b" "])).map(
            lambda t: enc((t[0].encode("ascii") + t[1] * fi.n)[: fi.n]))
        return st.one_of(base, base, st.just(enc(bytes(fi.n))), st.just(enc(b"\xff" * fi.n)), st.just(enc([255] * fi.n)), text)
    return base


@st.composite
def _with_nan(draw, base):
    seq = draw(base)
    tag = "l" if "l" in seq else "u"
    elems = list(seq[tag])
    for _ in range(draw(st.integers(1, 2))):
        elems[draw(st.integers(0, len(elems) - 1))] = enc(_NAN)
    return {tag: elems}


_HDR_FIELDS = [fi for fi in msgs.fields_of(MessageHeader) if fi.name not in ("msg_type", "reserved")]
_TC_FIELDS = msgs.fields_of(TimeCodeMessageHeader)  # the subclass' own _fields_: utc_seconds, utc_fraction


@st.composite
def _header(draw, size: int, tc: bool = False):
    """Every header field except msg_type / version drawn independently over its full domain; num_data_bytes is NOT kept
    consistent with the data (0, the type size, other values, negative)."""
    out = {}
    for fi in _HDR_FIELDS:
        if fi.name == "num_data_bytes":
            out[fi.name] = draw(st.one_of(st.just(0), st.just(0), st.just(size), st.sampled_from([1, -1, size + 1, 2 ** 31 - 1, -(2 ** 31)]),
                                          _value(fi)))
        elif draw(st.integers(0, 2)) > 0:
            out[fi.name] = draw(_value(fi))
    if tc:
        for fi in _TC_FIELDS:
            out[fi.name] = draw(_value(fi))  # full uint32 range incl. 0 and 2**32-1
    return out


@functools.lru_cache(maxsize=8)
def _class_ref(md_only: bool):
    pool = msgs.fixed_refs()
    if md_only:
        pool = [r for r in pool if issubclass(msgs.resolve(r), MessageData)]
    fam = [r for r in pool if "fam" in r]
    return st.one_of(msgs.hyp_class_ref(None, True), st.sampled_from(pool), st.sampled_from(fam))


_HOW = st.sampled_from(["whole", "whole", "items", "items", "slices"])


_REPEAT = st.sampled_from([1, 1, 1, 2, 2, 3])
_TARGET_KINDS = LEAF_KINDS | frozenset(["struct", "sarr"])


@st.composite
def _history(draw, path, fi: FI):
    """1-3 assignments to one field: the value is the result of a HISTORY of validated stores."""
    n = draw(_REPEAT)
    out = []
    if fi.kind == "struct":
        return [{"p": path, "f": fi.name, "v": draw(msgs.struct_in(fi.scls))} for _ in range(n)]
    if fi.kind == "sarr":
        return [{"p": path, "f": fi.name, "how": "item", "k": draw(st.integers(0, fi.n - 1)), "v": draw(msgs.struct_in(fi.scls))}
                for _ in range(n)]
    for i in range(n):
        step = {"p": path, "f": fi.name, "v": draw(_value(fi))}
        if fi.kind == "str" and i > 0 and draw(st.booleans()):
            # a longer string followed by a shorter one / the empty string
            prev = dec(out[0]["v"])
            # ... or a shorter one with an embedded NUL (the field then reads up to that NUL)
            step["v"] = enc(draw(st.sampled_from(["", prev[:1], prev[: len(prev) // 2], prev[:-1],
                                                  "\0" + prev[: len(prev) // 2], prev[:1] + "\0" + prev[: max(0, len(prev) - 3)]])))
        if fi.kind in ARRAY_KINDS:
            step["how"] = draw(_HOW)
            if i > 0 and draw(st.booleans()):  # a slice after the earlier whole-array stores
                lo = draw(st.integers(0, fi.n - 1))
                hi = draw(st.integers(lo + 1, fi.n))
                full = list(dec(step["v"]))
                step.update(how="part", k=[lo, hi], v=enc(full[lo:hi]))
        out.append(step)
    if fi.kind == "str" and n > 1 and draw(st.booleans()):
        # make the first value the longest one
        out[0]["v"] = enc(draw(st.one_of(st.text(alphabet="abcxyz019 ", min_size=fi.n - 1, max_size=fi.n - 1),
                                         msgs.syntax_text(fi.n - 1, fi.n - 1))))  # ... also one that looks like JSON / YAML syntax
    return out


@st.composite
def case(draw, route: str):
    ref = draw(_class_ref(route == "message"))
    cls = msgs.resolve(ref)
    sets, seen = [], set()
    if msgs.has_kind(cls, LEAF_KINDS):
        for _ in range(draw(st.integers(0, 8))):
            kinds = _TARGET_KINDS if draw(st.integers(0, 5)) == 0 else LEAF_KINDS
            path, fi, _ccls = msgs.pick_target(draw, cls, kinds)
            key = json.dumps([path, fi.name])
            if key in seen:
                continue
            seen.add(key)
            sets.extend(draw(_history(path, fi)))
    t = {"sub": route, "cls": ref, "sets": sets}
    if len(sets) > 1 and draw(st.booleans()):
        # conversions repeated on the same object(s) with stores in between
        t["cp"] = sorted(set(draw(st.lists(st.integers(0, len(sets) - 2), min_size=1, max_size=2))))
    if route in ("json", "message") and draw(st.integers(0, 3)) == 0:
        # an EARLIER conversion of some other (all-zero) message with a json.dumps keyword argument of the caller's
        # choosing: what one call was asked for must not stick to later calls
        t["prelude"] = draw(st.sampled_from(["allow_nan", "ensure_ascii", "sort_keys", "separators"]))
    if route == "message":
        if t.get("cp"):
            t["swap"] = draw(st.integers(0, 3)) == 0
        t["tc"] = draw(st.booleans())
        t["hdr"] = draw(_header(ctypes.sizeof(cls), t["tc"]))
        if t.get("cp") and draw(st.booleans()):
            hm = draw(_header(ctypes.sizeof(cls), t["tc"]))
            t["hmut"] = {k: v for k, v in list(hm.items())[: draw(st.integers(1, 3))]}
        t["ver"] = draw(st.booleans())
        t["badver"] = draw(st.one_of(st.sampled_from([1, 2 ** 32 - 1, 2 ** 31]), st.integers(1, 2 ** 32 - 1)))
    return t


_REG_OP = st.one_of(st.just(["get"]), st.tuples(st.just("rt"), st.booleans(), st.booleans()).map(list),
                    st.just(["foreign", "prev"]), st.integers(1, 2 ** 32 - 1).map(lambda x: ["foreign", x]))


@st.composite
def registry_case(draw):
    tid = draw(st.sampled_from(REGISTRY_IDS))
    specs = draw(st.lists(msgs.struct_spec(1, 1, 4), min_size=1, max_size=3))
    gens = []
    for _ in range(draw(st.integers(2, 4))):
        spec = draw(st.sampled_from(specs))
        cls = msgs.resolve({"spec": spec, "rid": tid})
        sets, seen = [], set()
        if msgs.has_kind(cls, LEAF_KINDS):
            for _ in range(draw(st.integers(0, 3))):
                path, fi, _c = msgs.pick_target(draw, cls, LEAF_KINDS)
                key = json.dumps([path, fi.name])
                if key not in seen:
                    seen.add(key)
                    sets.extend(draw(_history(path, fi)))
        gens.append({"spec": spec, "sets": sets, "ops": draw(st.lists(_REG_OP, max_size=3))})
    return {"sub": "registry", "id": tid, "gens": gens}


# ------------------------------------------------------------------------------------------------


def shard(seed: int, n: int) -> Result:
    res = Result()
    for i, route in enumerate(ROUTES):
        hyp_run(lambda t: run_case(t, res), case(route), seed * 8 + i, n, res)
    hyp_run(lambda t: run_case(t, res), registry_case(), seed * 8 + 7, max(1, n // 2), res)
    return res

# ------------------------------------------------------------------------------------------------
# fields named like the conversion API itself, through the real compiler
API_NAMES = ["to_dict", "to_json", "from_dict", "from_json", "copy", "pretty_print", "from_random", "get_field_raw", "hexdump", "type_size",
             "from_buffer", "from_buffer_copy", "value", "fields", "data", "header"]


def api_named_case(name: str) -> str:
    """A definition file with a message that has a field called like one of the methods the round trips go through is either
    refused by the compiler, or its generated class converts like any other.  Returns "refused" or "accepted"."""
    import importlib.util
    import tempfile

    from vlib import langs

    trace = {"sub": "api-named-field", "name": name}
    text = (f"message_defs:\n  API_HOLDER:\n    id: 4700\n    fields:\n      first: int32\n      {name}: int32\n      last: double\n"
            f"  API_PLAIN:\n    id: 4701\n    fields:\n      a: int32\n      b: int32\n      c: double\n")
    with tempfile.TemporaryDirectory(prefix="verif_c10_") as d:
        try:
            c = langs.compile_program({"files": {"root.yaml": text}, "root": "root.yaml"}, os.path.join(d, "out"), outputs=("py",),
                                      src_dir=os.path.join(d, "src"), import_coredefs=False)
        except langs.CompileError as e:
            if e.is_parser_error:
                return "refused"  # one of the compiler's own errors
            raise Violation("api-named-field/internal-error", f"a field named {name}: compile() raised {e.kind}: {e.exc}", trace)
        modname = "verif_c10_api_defs_" + name
        spec = importlib.util.spec_from_file_location(modname, c.paths["py"])
        mod = importlib.util.module_from_spec(spec)
        sys.modules[modname] = mod
        try:
            spec.loader.exec_module(mod)
        except BaseException as e:  # noqa
            sys.modules.pop(modname, None)
            raise Violation("api-named-field/module-does-not-import", f"a field named {name} was accepted, the generated module raises "
                            f"{type(e).__name__}: {e}", trace)
        cls = mod.MDF_API_HOLDER
        m = cls()
        try:
            m.first, m.last = 7, -2.5
            setattr(m, name, 1234)
            want = bytes(m)
            routes = {
                "dict": lambda: cls.from_dict(m.to_dict()),
                "json": lambda: cls.from_json(m.to_json()),
                "json-minified": lambda: cls.from_json(m.to_json(minify=True)),
                "copy": lambda: cls.copy(m),
            }
            for rname, fn in routes.items():
                got = bytes(fn())
                if got != want:
                    raise Violation(f"api-named-field/bytes-differ/{rname}", f"a field named {name} was accepted; {rname} round trip of the "
                                    f"generated class gives {got.hex()} for {want.hex()}", trace)
        except Violation:
            raise
        except BaseException as e:  # noqa
            raise Violation("api-named-field/conversion-raises", f"a field named {name} was accepted by the compiler, but the generated class "
                            f"no longer converts: {type(e).__name__}: {e}", trace)
    return "accepted"


def shard_api(_unused) -> Result:
    res = Result()
    for name in API_NAMES:
        try:
            out = api_named_case(name)
            res.count("api-named-field-" + out)
        except Violation as v:
            res.add_finding(v.key, v.what, v.trace)
        res.evaluations += 1
        res.shape("api-named", name)
    return res


def shard_any(kind, *a):
    return shard_api(*a) if kind == "api" else shard(*a)


def run(ctx: RunContext) -> int:
    t0 = time.time()
    n = ctx.scale(300, 6000)
    res = run_shards(shard_any, [("hyp", derive_seed(ctx.seed, i), n) for i in range(16)] + [("api", 0)])
    return conclude(ctx, res, RULE, ASSUME, t0)


def replay_trace(trace: dict) -> None:
    """Re-execute one concrete case without Hypothesis; raises Violation if the property still fails."""
    if trace.get("sub") == "api-named-field":
        api_named_case(trace["name"])
        return
    run_case(trace, Result())
