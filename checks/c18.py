"""C18 - manager traffic statistics are exact.

An all-seeing monitor (logger module subscribed to ALL_MESSAGE_TYPES, always writable) is connected
first; every frame the manager forwards reaches it, so the frames it sees between two reports are an
independent count of what the manager "handled for forwarding" (plus the harness-known publishes
that the destination range check drops, which are counted but delivered to nobody).
"""
from __future__ import annotations

import logging
import struct
import time
from collections import Counter

from hypothesis import strategies as st

from vlib import proto as P
from vlib.common import HarnessError, Result, RunContext, Violation, conclude, derive_seed, hyp_run, run_shards
from vlib.simcheck import SIM_ASSUME
from vlib.simnet import LISTENER, Sim

RULE = ("Hypothesis draws sequences of reporting intervals; per interval a multiset of published message types (number of distinct "
        "types from {0,1,2,3,63,64,65,128,129,300}, per-type counts 1..5, 40/200, the boundary table 255..65535 (one interval per value, both tiers) and 65535 inside random histories (thorough), type values incl. 0, "
        "9999, 10000, negative and huge ones, some publishes with out-of-range destinations), clients connecting / announcing their pid / "
        "leaving, and a report step that advances the virtual clock (0.95 s: TIMING only; 2 s: TIMING and TRAFFIC; 6 s: also "
        "ACTIVE_CLIENTS). Oracle: the frames seen by an all-seeing logger monitor between two reports are counted independently; "
        "TIMING_MESSAGE.timing[t] must equal that count for every t in 0..9999 and ModulePID[id] the announced pid of every connected "
        "module; the MESSAGE_TRAFFIC sub-messages of one seqno, entries with msg_type != -1 and count > 0 taken together, must list "
        "exactly the types seen, each in exactly one entry with the exact count; a report step after a non-empty interval must "
        "produce a report. Non-trivial = an interval with >=2 distinct types or exactly 64/65 distinct types; distinct = (distinct-type "
        "class, max count class, out-of-range types?, out-of-range dest?, which reports fired).")
ASSUME = SIM_ASSUME + [
    "ACK frames are sent directly, not forwarded, and are therefore not part of the statistics (they reach the logger monitor as copies and are excluded by source 0 / type 2)",
    "TIMING_MESSAGE and MESSAGE_TRAFFIC themselves are excluded, as the statement says",
    "counts above 65535 per type per interval are outside the stated domain (uint16 fields)",
    "a message the manager received but refused to forward because its destination module/host id is out of range counts as 'handled for "
    "forwarding' (the statistics are taken before the destination check; the statement does not single such messages out)",
    "the first report after the monitor subscribed is discarded (warm-up: frames forwarded before it could see them)",
    "entries of MESSAGE_TRAFFIC whose count is 0 are treated as unused slots",
    "a forwarded message whose type is -1 cannot be told from an unused MESSAGE_TRAFFIC entry (format limitation): not expected in the report",
]

DISTINCT = [3, 2, 1, 0, 64, 65, 63, 128, 129, 300]
LEFTOVER_TYPES = (31771, 31772, 31773)  # forwarded at the very end of a case and never reported by that case's manager
SPECIAL_TYPES = [0, 9999, 10000, -1, 2 ** 31 - 2, -(2 ** 31), 2, 8, 33, 80, 30, 65536, 100]
CONTROL = P.CONTROL_TYPES


def st_interval(thorough):
    counts = st.sampled_from([1, 1, 1, 2, 3, 5] + ([200] if thorough else [40]))
    if thorough:
        # the maximum count costs 65535 manager rounds: about one interval in sixty
        counts = st.one_of(*([counts] * 59 + [st.just(65535)]))
    return st.fixed_dictionaries(dict(
        k=st.sampled_from(DISTINCT), base=st.integers(100, 9000), stride=st.sampled_from([1, 1, 7, 33]),
        count=counts, special=st.lists(st.sampled_from(SPECIAL_TYPES), max_size=3),
        baddest=st.integers(0, 2), event=st.sampled_from([None, None, "connect", "ready", "leave", "setname", "accept", "accept"]),
        dt=st.sampled_from([2.0, 2.0, 0.95, 2.0, 6.0, 1.05]),
        deaf=st.sampled_from([0, 0, 1]),
        blind=st.sampled_from([0, 0, 0, 1]),
    ))


class StatsWorld:
    def __init__(self, cfg):
        self.cfg = cfg
        self.tc = cfg.get("timecode", False)
        self.sim = Sim(timecode=self.tc, send_msg_timing=cfg.get("timing", True), log_level=logging.CRITICAL + 10)
        self.trace = {"cfg": cfg, "intervals": []}
        self.seen_timing = Counter()  # independent counts since the last TIMING
        self.seen_traffic = Counter()
        self.pids = {}  # mod_id -> pid for connected modules
        self.extra = []
        self.reports_checked = 0
        self.traffic_frames = []
        self.checking = False
        self.got_timing = False
        self.el_timing = 0.0  # virtual time since the last TIMING / TRAFFIC report
        self.el_traffic = 0.0
        self.el_active = 0.0  # virtual time since the monitor last saw an ACTIVE_CLIENTS report
        try:
            self.mon = self._connect(91, logger=1, pid=911)
            self._send(self.mon, P.MT_SUBSCRIBE, P.SUBSCRIBE.pack(P.ALL_MESSAGE_TYPES), src=91)
            self.pubs = [self._connect(20 + i, pid=2000 + i) for i in range(4)]
            # a second, ordinary (non-logger) subscriber of the two reports: it must receive the same reports
            self.mon2 = self._connect(92, pid=912)
            self._send(self.mon2, P.MT_SUBSCRIBE, P.SUBSCRIBE.pack(P.MT_TIMING_MESSAGE), src=92)
            self._send(self.mon2, P.MT_SUBSCRIBE, P.SUBSCRIBE.pack(P.MT_MESSAGE_TRAFFIC), src=92)
            # a third subscriber of the two reports, which is sometimes outside the writable snapshot when they are sent: the
            # FAILED_MESSAGE notices about the reports it misses are ordinary forwarded messages (the monitor sees and counts them)
            self.mon3 = self._connect(93, pid=913)
            self._send(self.mon3, P.MT_SUBSCRIBE, P.SUBSCRIBE.pack(P.MT_TIMING_MESSAGE), src=93)
            self._send(self.mon3, P.MT_SUBSCRIBE, P.SUBSCRIBE.pack(P.MT_MESSAGE_TRAFFIC), src=93)
            self.mon2_reports = []
            self.mon_reports = []
            self.pump()
            # warm-up report: its content is not checked (start-up log lines, handshakes), except that a freshly created
            # manager cannot report the types an EARLIER manager object of this process forwarded and never reported
            self.report(2.0, check=False)
            leaked = [t for fr in self.traffic_frames for t in self._traffic_types(fr) if t in LEFTOVER_TYPES]
            if leaked:
                self.viol("traffic/inherited-from-another-manager", f"the first MESSAGE_TRAFFIC of a new manager lists types {sorted(set(leaked))}, "
                          f"which only an earlier manager object of this process forwarded (statistics state is shared between manager objects)")
        except BaseException:
            self.sim.close()
            raise

    def viol(self, key, what):
        raise Violation(key, what, self.trace)

    def _traffic_types(self, fr):
        if len(fr.payload) != 408:
            return []
        types = struct.unpack_from("<64i", fr.payload, 24)
        counts = struct.unpack_from("<64H", fr.payload, 24 + 256)
        return [t for t, c in zip(types, counts) if t != -1 and c > 0]

    def leave_unreported_traffic(self):
        """Called at the end of a case: a few messages of reserved types are forwarded and never reported."""
        for t in LEFTOVER_TYPES:
            self._send(self.pubs[0], t, b"", src=self.pubs[0].mod_id)
        self.pump()

    def _send(self, conn, t, payload=b"", src=0, dm=0, dh=0):
        conn.send(P.build(t, payload, src_mod=src, dest_mod=dm, dest_host=dh, timecode=self.tc))

    def _connect(self, mid, logger=0, pid=1):
        c = self.sim.open()
        c.mod_id = mid
        self._send(c, P.MT_CONNECT_V2, P.CONNECT_V2.pack(logger, 0, 0, mid, pid, P.cstr(b"m%d" % mid)), src=mid)
        self.pids[mid] = pid
        return c

    def pump(self, dt_last=0.0):
        sim = self.sim
        while True:
            ready = ([LISTENER] if sim.listener.backlog else []) + [c for c in sim.conns if sim.readable(c)]
            if not ready:
                break
            sim.step(ready, list(sim.conns), 0.0)
            self.alive()
            self.observe()

    def alive(self):
        if self.sim.dead:
            self.viol("manager-died/" + type(self.sim.dead_exc).__name__, self.sim.dead.strip().splitlines()[-1])

    def observe(self):
        """Count what the monitor saw; handle reports."""
        self.mon.rxbuf += self.mon.take()
        mon2 = getattr(self, "mon2", None)
        for c in self.sim.conns:
            if c is not self.mon and c is not mon2:
                c.take()
        if mon2 is not None:
            mon2.rxbuf += mon2.take()
            for fr in P.parse_stream(mon2.rxbuf, self.tc):
                if fr.src_mod_id == 0 and fr.msg_type in (P.MT_TIMING_MESSAGE, P.MT_MESSAGE_TRAFFIC):
                    self.mon2_reports.append((fr.msg_type, fr.payload))
        for fr in P.parse_stream(self.mon.rxbuf, self.tc):
            t = fr.msg_type
            if mon2 is not None and fr.src_mod_id == 0 and t in (P.MT_TIMING_MESSAGE, P.MT_MESSAGE_TRAFFIC):
                self.mon_reports.append((t, fr.payload))
            if t == P.MT_TIMING_MESSAGE and fr.src_mod_id == 0:
                self.on_timing(fr)
            elif t == P.MT_MESSAGE_TRAFFIC and fr.src_mod_id == 0:
                if not self.traffic_frames:
                    # the report covers what the monitor saw before its first frame; what is forwarded while the report goes
                    # out (notices about subscribers that miss it) belongs to the next interval
                    self.traffic_cut = Counter(self.seen_traffic)
                    self.seen_traffic = Counter()
                self.traffic_frames.append(fr)
            elif t == P.MT_ACKNOWLEDGE and fr.src_mod_id == 0:
                continue
            else:
                if t == P.MT_ACTIVE_CLIENTS and fr.src_mod_id == 0:
                    self.el_active = 0.0
                self.seen_timing[t] += 1
                self.seen_traffic[t] += 1

    # ---- reports -------------------------------------------------------------------------------
    def on_timing(self, fr):
        self.got_timing = True
        if not self.checking:
            self.seen_timing = Counter()
            return
        if len(fr.payload) != 20808:
            self.viol("timing/size", f"TIMING_MESSAGE payload has {len(fr.payload)} bytes")
        timing = struct.unpack_from("<10000H", fr.payload, 0)
        pidarr = struct.unpack_from("<200i", fr.payload, 20000)
        exp = self.seen_timing
        for t in range(10000):
            e = exp.get(t, 0)
            if timing[t] != e:
                self.viol("timing/wrong-count", f"TIMING_MESSAGE reports {timing[t]} messages of type {t}, the monitor saw {e} "
                          f"since the previous report (interval {len(self.trace['intervals'])})")
        for mid, pid in self.pids.items():
            if 0 < mid < 200 and pidarr[mid] != pid:
                self.viol("timing/module-pid", f"TIMING_MESSAGE.ModulePID[{mid}] = {pidarr[mid]}, the module announced pid {pid}")
        self.seen_timing = Counter()
        self.reports_checked += 1

    def check_traffic(self, frames, exp: Counter):
        by_seq = {}
        for fr in frames:
            if len(fr.payload) != 408:
                self.viol("traffic/size", f"MESSAGE_TRAFFIC payload has {len(fr.payload)} bytes")
            seqno, sub, t0, t1 = P.TRAFFIC_HEAD.unpack_from(fr.payload, 0)
            types = struct.unpack_from("<64i", fr.payload, 24)
            counts = struct.unpack_from("<64H", fr.payload, 24 + 256)
            by_seq.setdefault(seqno, []).append((sub, types, counts))
        if len(by_seq) > 1:
            self.viol("traffic/several-seqno", f"one report step produced MESSAGE_TRAFFIC with several seqno values {sorted(by_seq)}")
        if not by_seq:
            if sum(exp.values()):
                self.viol("traffic/no-report", f"no MESSAGE_TRAFFIC after an interval in which {sum(exp.values())} messages were forwarded")
            return
        (seqno, subs), = by_seq.items()
        entries = []
        for sub, types, counts in subs:
            for t, c in zip(types, counts):
                if t != -1 and c > 0:
                    entries.append((t, c, sub))
        listed = Counter(t for t, c, s in entries)
        dup = [t for t, n in listed.items() if n > 1]
        if dup:
            self.viol("traffic/type-listed-twice", f"MESSAGE_TRAFFIC seqno {seqno}: type {dup[0]} appears in {listed[dup[0]]} entries "
                      f"{[(c, s) for t, c, s in entries if t == dup[0]]} (count, sub_seqno); seen {exp.get(dup[0], 0)} times")
        got = {t: c for t, c, s in entries}
        want = {t: c for t, c in exp.items() if c and t != -1}  # -1 is the wire format's "unused entry" marker
        for t, c in want.items():
            if t not in got:
                self.viol("traffic/type-missing", f"MESSAGE_TRAFFIC seqno {seqno} does not list type {t} (seen {c} times); {len(want)} distinct types in the interval")
            if got[t] != c:
                self.viol("traffic/wrong-count", f"MESSAGE_TRAFFIC seqno {seqno}: type {t} count {got[t]}, seen {c}")
        for t, c in got.items():
            if t not in want:
                self.viol("traffic/type-not-seen", f"MESSAGE_TRAFFIC seqno {seqno} attributes {c} messages to type {t} which was not seen")
        self.reports_checked += 1

    def report(self, dt, check=True, accept_only=False, deaf=False):
        """A quiet manager round (nothing ready) with the clock advanced: periodic reports fire."""
        self.checking = check
        self.traffic_frames = []
        self.got_timing = False
        self.traffic_cut = None
        pending = sum(self.seen_traffic.values())
        self.el_timing += dt
        self.el_traffic += dt
        self.el_active += dt
        writable = [c for c in self.sim.conns if not (deaf and c is getattr(self, "mon3", None))]
        if accept_only:
            # the only thing ready in the report round is the listening socket (a new connection is waiting)
            self.sim.open()
            self.sim.step([LISTENER], writable, dt)
        elif deaf:
            # a writable snapshot is only taken in a round that serves something: one publisher has a message ready in the
            # report round.  The manager forwards (and counts) it before the reports go out, the monitor sees it before them.
            p = self.pubs[1]
            self._send(p, 4242, b"", src=p.mod_id)
            pending += 1
            self.sim.step([p], writable, dt)
        else:
            self.sim.step([], writable, dt)
        self.alive()
        # frames of the report round: TIMING first, then TRAFFIC, then (maybe) ACTIVE_CLIENTS + CLIENT_INFO,
        # which already belong to the next interval (observe() cuts the traffic interval at the first MESSAGE_TRAFFIC frame)
        self.observe()
        fired = dict(timing=self.got_timing, traffic=bool(self.traffic_frames))
        if check and self.mon2_reports != self.mon_reports:
            n1, n2 = len(self.mon_reports), len(self.mon2_reports)
            self.viol("report/not-delivered-to-every-subscriber", f"the logger monitor received {n1} TIMING/TRAFFIC report frames so far, "
                      f"the ordinary (always writable) subscriber of both report types {n2}"
                      + ("" if n1 != n2 else " with different content")
                      + (": the reports of a round in which only the listening socket was ready were dropped and their counts lost" if accept_only else ""))
        if check and self.cfg.get("timing", True) and self.el_timing > 0.9 + 1e-9 and not self.got_timing:
            self.viol("timing/no-report", f"no TIMING_MESSAGE although {self.el_timing:.2f} s elapsed since the previous one")
        if self.got_timing:
            self.el_timing = 0.0
        if self.traffic_frames:
            if check:
                self.check_traffic(self.traffic_frames, self.traffic_cut)
            self.el_traffic = 0.0
        else:
            if check and self.el_traffic > 1.0 + 1e-9 and pending:
                self.viol("traffic/no-report", f"no MESSAGE_TRAFFIC although {self.el_traffic:.2f} s elapsed and "
                          f"{pending} messages were forwarded in the interval")
            if self.el_traffic > 1.0 + 1e-9:
                self.el_traffic = 0.0  # the manager restarts its interval even when there is nothing to report
        return fired

    # ---- one interval --------------------------------------------------------------------------
    def interval(self, iv, res: Result = None):
        self.trace["intervals"].append(iv)
        types = []
        for i in range(iv["k"]):
            t = iv["base"] + i * iv["stride"]
            if t in CONTROL:
                t += 20000
            types.append(t)
        types += [t for t in iv["special"] if t not in CONTROL]
        jobs = []
        for j, t in enumerate(types):
            n = iv["count"] if j == 0 else 1 + (j % 3 if iv["count"] > 1 else 0)
            jobs += [(t, 0, 0)] * n
        for b in range(iv["baddest"]):
            # counted by the manager, delivered to nobody
            t = types[b % len(types)] if types else 1234
            jobs.append((t, 201 if b == 0 else 0, 0 if b == 0 else 6))
        # counts above 65535 per type and interval are outside the stated domain (uint16 fields): trim
        per_type = Counter()
        kept = []
        for job in jobs:
            room = 65535 - self.seen_traffic.get(job[0], 0) - self.seen_timing.get(job[0], 0)
            if per_type[job[0]] < min(65535, room):
                per_type[job[0]] += 1
                kept.append(job)
        jobs = kept
        for t, dm, dh in jobs:
            if dm > 200 or dh > 5:
                self.seen_timing[t] += 1
                self.seen_traffic[t] += 1
        ev = iv["event"]
        # an interval that nobody can see: no module is subscribed to MESSAGE_TRAFFIC or to all types when it ends.  The
        # statistics of such an interval are reported to nobody - and must not turn up in a later report.  (Only when the
        # 5 s ACTIVE_CLIENTS burst cannot fire in it: its CLIENT_INFO messages would be counted unseen for the next interval.)
        blind = bool(iv.get("blind")) and iv["dt"] >= 1.05 and self.el_active + iv["dt"] <= 4.5 and self.cfg.get("timing", True)
        if blind:
            ev = None
            self._send(self.mon, P.MT_UNSUBSCRIBE, P.SUBSCRIBE.pack(P.ALL_MESSAGE_TYPES), src=91)
            for c, mid in ((self.mon2, 92), (self.mon3, 93)):
                self._send(c, P.MT_UNSUBSCRIBE, P.SUBSCRIBE.pack(P.MT_MESSAGE_TRAFFIC), src=mid)
            self.pump()
        if ev == "connect":
            mid = 40 + len(self.extra)
            if mid < 99:
                self.extra.append(self._connect(mid, pid=4000 + mid))
        elif ev == "ready" and self.extra:
            c = self.extra[-1]
            self._send(c, P.MT_MODULE_READY, P.MODULE_READY.pack(7000 + c.mod_id), src=c.mod_id)
            self.pids[c.mod_id] = 7000 + c.mod_id
        elif ev == "leave" and self.extra:
            c = self.extra.pop()
            # what a module published in an interval counts for that interval also when the module has left before it ends
            for k in range(1 + c.mod_id % 3):
                self._send(c, 4300 + c.mod_id % 7, b"", src=c.mod_id)
            self.pump()
            if c.mod_id % 2:
                self._send(c, P.MT_DISCONNECT, src=c.mod_id)
            else:
                c.c.close()
            self.pids.pop(c.mod_id, None)
            if res is not None:
                res.count("intervals-in-which-a-publishing-module-leaves")
        elif ev == "setname" and self.extra:
            c = self.extra[-1]
            self._send(c, P.MT_CLIENT_SET_NAME, P.cstr(b"renamed"), src=c.mod_id)
        # spread the publishes over the four publishers
        for j, (t, dm, dh) in enumerate(jobs):
            p = self.pubs[j % len(self.pubs)]
            self._send(p, t, b"", src=p.mod_id, dm=dm, dh=dh)
            if j % 64 == 63:
                self.pump()
        self.pump()
        ndist = len({t for t, _, _ in jobs})
        if blind:
            self.report(iv["dt"], check=False)
            # everything forwarded so far was reported (to nobody) by that step: a clean slate for the independent count
            self.seen_traffic, self.seen_timing = Counter(), Counter()
            self.el_timing = self.el_traffic = 0.0
            self._send(self.mon, P.MT_SUBSCRIBE, P.SUBSCRIBE.pack(P.ALL_MESSAGE_TYPES), src=91)
            for c, mid in ((self.mon2, 92), (self.mon3, 93)):
                self._send(c, P.MT_SUBSCRIBE, P.SUBSCRIBE.pack(P.MT_MESSAGE_TRAFFIC), src=mid)
            self.pump()
            self.mon2_reports, self.mon_reports = [], []
            self.seen_traffic, self.seen_timing = Counter(), Counter()
            if res is not None:
                res.count("intervals")
                res.count("intervals-that-end-while-nobody-subscribes-to-the-reports")
            return
        fired = self.report(iv["dt"], accept_only=(ev == "accept"), deaf=bool(iv.get("deaf")))
        if res is not None and iv.get("deaf"):
            res.count("report-rounds-with-an-unwritable-report-subscriber")
        if res is not None:
            res.count("intervals")
            res.count(f"distinct-types-{iv['k']}")
            if ndist >= 2 or ndist in (64, 65):
                cls = ndist if (ndist <= 5 or ndist in (63, 64, 65, 66, 128, 129, 130)) else ndist // 50 * 50
                res.shape(cls, iv["count"], any(t < 0 or t >= 10000 for t, _, _ in jobs), iv["baddest"] > 0, fired["timing"], fired["traffic"], ev)
                res.count("intervals-nontrivial")

    def close(self):
        self.sim.close()


def run_case(cfg, intervals, res: Result = None):
    w = StatsWorld(cfg)
    try:
        for iv in intervals:
            w.interval(iv, res)
        if res is not None:
            res.count("reports-checked", w.reports_checked)
        w.leave_unreported_traffic()
    finally:
        w.close()


CFGS = [{"timecode": False, "timing": True}, {"timecode": True, "timing": True}, {"timecode": False, "timing": False}]


# per-type counts at the boundaries of the 8/15/16-bit ranges of the uint16 count fields: one interval each
BOUNDARY_COUNTS = [255, 256, 32767, 32768, 32769, 40000, 65534, 65535]


def boundary_cases(thorough):
    cases = []
    for ci in ((0, 1, 2) if thorough else (0,)):
        for j, cnt in enumerate(BOUNDARY_COUNTS):
            cases.append((ci if thorough else j % 3, [dict(k=2, base=700 + j, stride=1, count=cnt, special=[], baddest=j % 2,
                                                      event=None, dt=2.0)]))
    return cases


def shard(seed, n, thorough, index=0):
    res = Result()
    bc = boundary_cases(thorough)
    for ci, ivs in bc[index::16]:
        try:
            run_case(CFGS[ci], ivs, res)
        except Violation as v:
            res.add_finding(v.key, v.what, v.trace)
        res.evaluations += 1
        res.count("boundary-count-cases")

    def body(v):
        ci, ivs = v
        run_case(CFGS[ci], ivs, res)
        res.count("histories")
        if len(res.samples) < 2:
            res.sample({"cfg": CFGS[ci], "intervals": ivs[:4]})

    hyp_run(body, st.tuples(st.sampled_from([0, 0, 1, 2]), st.lists(st_interval(thorough), min_size=1, max_size=5)), seed, n, res)
    return res


def run(ctx: RunContext) -> int:
    t0 = time.time()
    n = ctx.scale(150, 500)
    res = run_shards(shard, [(derive_seed(ctx.seed, i), n, not ctx.quick, i) for i in range(16)])
    return conclude(ctx, res, RULE, ASSUME, t0)


def replay_trace(trace: dict):
    run_case(trace["cfg"], trace["intervals"])
