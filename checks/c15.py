"""C15 - accepted definitions always yield outputs that load in their language.

Well-formed programs over every documented construct in every definition order the grammar permits are compiled for
real; the compiler must not raise, and each output must load: Python imports and registers every message, the C header
compiles, the JavaScript module imports and every factory returns fresh objects, the MATLAB script only refers to
fields it has defined.  Collect-then-classify: every failure is bucketed by (language, failure kind, construct class).
See DESIGN.md 4 "C15".
"""
from __future__ import annotations

import re
import time

from hypothesis import strategies as st

from vlib import defgen as G
from vlib import langs as L
from vlib.common import HarnessError, Result, RunContext, Violation, conclude, derive_seed, hyp_run, run_shards

RULE = ("Hypothesis draws well-formed definition closures (vlib.defgen.programs: 1-6 files in 1-3 directories, chain/tree/diamond/"
        "repeated/respelled/cyclic imports, constants and expressions, string constants, aliases of natives, of aliases and of imported "
        "structs, host and module ids, nested structs and messages, arrays with literal and expression lengths, signals, field-list "
        "reuse, reserved ids, all three compiler options drawn), half of them forced to the 5-file skeleton so that cross-file use "
        "dominates; the classes that were tied to (now repaired) defects - alias-of-imported-struct, alias-of-imported-struct-field, "
        "struct-contains-message, string-special, prefix-names - are enabled in every second program, singly and together; two programs in nine use the "
        "documented constructs in less usual form (classes many-symbols: a constant or array-length expression that names 11-16 constants; string-control: string "
        "constants with line breaks, tabs, carriage returns; rich-operators: constant and length expressions with << >> | & ^ ~ // % ** and unary signs; "
        "inexact-div-length: lengths such as (BITS / 8) * N whose quotient is not whole), one in ten has definitions called like a definition of ANOTHER namespace of the closure or of the imported "
        "core definitions (names are unique per namespace: module id RTMA_LOG / EXIT / DATA_SET / LOCAL_HOST, host id TIMING_MESSAGE / QUICK_LOGGER, message MESSAGE_MANAGER / LOCAL_HOST, struct, "
        "constant, string constant or alias called like a module id; new structs / messages / aliases are used as field types), a message called MM_ERROR / MM_INFO / DEBUG_TEXT or a struct / alias / "
        "message called ``string`` (names a back end writes itself), and string constants whose lines look like YAML (host:port, key: value, - item, # text, leading / trailing blanks); one in ten is a closure with ONE construct of vlib.defgen.add_hygiene "
        "whose names are identifiers in all four languages (a constant that is .inf / -.inf / .nan - literal or result of an expression - or a YAML bool; a field "
        "named like a descriptor class of the generated Python class body followed by a field that needs it; a field named like the struct / MDF_<message> type of a "
        "later field; a constant or string constant named like a field; a host id that shares its name with a constant / string constant / alias / struct of the closure or of the core definitions) - each of those 25 kinds also runs once per run on a two-message base: the compiler may refuse "
        "such a closure with one of its own errors (counted), an internal error or an accepted closure whose output does not load is a finding under the construct's "
        "own class; every shard starts "
        "with hand-written covering programs (constants whose names contain one another - CHANS/CHANS_MAX, LEN/MAX_LEN, N1/N10 - used "
        "together in expressions and array lengths; alias chains of length 2 and 3 ending in an imported struct, used as scalar and array "
        "field in a struct and in messages; the 26 native names; long float constants; every accepted cross-namespace name combination with core names and with user names; every text of the string vocabulary) and with files whose constant / string constant / alias / host id / struct is named like "
        "something the generated Python module uses itself (Double, Struct, ClassVar, MessageData, ...; the compiler may refuse them).  "
        "Every program is compiled in-process; then: the Python module is imported in a pristine interpreter (a brand-new process for the "
        "first two programs of every shard, otherwise a fork of a process that has only imported pyrtma) and get_msg_cls(id) must be the "
        "class of every message; gcc -fsyntax-only must accept the header (closures that do not use core type names); node imports the "
        "module and calls every SDF/MDF factory twice (no exception, no object shared between or within the results); the MATLAB "
        "interpreter must execute the script without an undefined reference.  Non-trivial = accepted program with >=1 cross-file type "
        "reference or >=1 alias used as a field type; distinct = (graph shape, sorted construct classes, options).")
ASSUME = [
    "no MATLAB/Octave in the sandbox: the .m output is executed by vlib.langs.matlab_run, an interpreter for the statement subset the back end emits (anything outside the subset is a harness error, not a finding)",
    "the MATLAB script hard-codes RTMA.MESSAGE_HEADER = RTMA.typedefs.RTMA_MSG_HEADER, which exists only with the core definitions imported: without them that one line is skipped",
    "the C header omits the core definitions on purpose (C clients include RTMA.h, not in the repository): it is compiled only for closures that use no core type name",
    "identifiers come from a vocabulary legal in Python, C, JavaScript and MATLAB",
    "names are unique per namespace (constants / string constants / aliases / structs / messages; module ids; host ids): a definition called like a definition of another namespace - also of the imported core definitions - is no conflict and an ordinary member of the domain; a host id called like a constant / string constant / alias / struct is a near miss (the Python module writes all five under their bare name): refusal is accepted",
    "a bare definition named like a name the compilers generate for another one (struct MT_X next to message X) may be refused by the compiler with DuplicateNameError (not a finding)",
    "a definition named like something the generated Python module uses itself may be refused by the compiler (counted only); field names with a leading underscore are not legal MATLAB identifiers and are C04's subject (near misses), not C15's",
    "names that are no identifiers (MAX-N), definitions named like native types, fields named like Python or C keywords are outside 'identifiers that are legal in all four target languages': C04 generates them, C15 does not",
    "non-finite and boolean constants, fields named like Python descriptor classes or later field types, constants named like fields: refusal by the compiler is accepted, silent acceptance with an output that does not load is not",
    "constant expressions: every operator Python's arithmetic on numbers knows (the compiler evaluates the expanded text as such) as long as the value is a whole number or a finite float that every back end prints as a plain number",
    "array length 0 is not a documented construct and is not generated here (C04 covers it)",
    "most Python modules are imported in a fork of an interpreter that has done nothing but `import pyrtma` (same state as a fresh interpreter, without its start-up cost)",
]

SUSPECT = ("alias-of-imported-struct", "alias-of-imported-struct-field", "struct-contains-message", "string-special", "prefix-names", "long-names")
PREFIXES = ("MT_", "MID_", "HID_")
# documented constructs in less usual form: expressions that name more than ten constants, string constants with line breaks / tabs,
# constant and length expressions with shifts, bitwise operators, //, %, ** and unary signs, lengths whose '/' does not come out whole
EXPRS = ("many-symbols", "string-control", "rich-operators", "inexact-div-length")
# definitions called like a definition of another namespace (of the closure or of the imported core definitions: module id RTMA_LOG, message
# QUICK_LOGGER, host id TIMING_MESSAGE); messages called MM_ERROR / MM_INFO / DEBUG_TEXT (the MATLAB back end writes those names itself);
# a struct / alias / message called ``string`` (a helper of the JavaScript module's type table): plain identifiers, no conflict
NAMES = ("cross-namespace-names", "backend-literal-names")
# single constructs a careful compiler refuses and a careless one writes verbatim into its outputs (vlib.defgen.add_hygiene); only the
# kinds whose names are identifiers in all four languages belong to this property
HYGIENE = G.HYGIENE_LEGAL_IDENTIFIERS


def _kind_of(program, name):
    try:
        return program.by_name(name).kind
    except Exception:
        return None


def _name_class(program, name, lang=None):
    """Construct class of a failure that names identifier `name` (undefined name / unknown type / missing field)."""
    if name is None:
        return "general"
    if name.startswith("MDF_"):
        base = name[4:]
        if _kind_of(program, base) == "message":
            return "struct-contains-message"
    k = _kind_of(program, name)
    if k == "struct":
        return "alias-of-imported-struct"
    if k == "message":
        return "struct-contains-message"
    if k == "alias":
        try:
            r = program.resolve_type(name)
        except Exception:
            return "alias"
        return "alias-native" if r.kind == "native" else "alias-of-imported-struct-field"
    return "general"


def _has_special_string(program):
    return "string-special" in program.classes


def _empty_files(program):
    out = []
    for rel, text in program.files.items():
        body = [l for l in text.splitlines() if l.strip() and not l.strip().startswith("#")]
        if not body:
            out.append(rel)
    return out


def classify_compile_error(program, e: L.CompileError):
    fn = "/".join(e.innermost())
    if e.kind == "TypeError" and "alias-of-imported-struct-field" in program.classes and "get_ctype" in fn:
        return "alias-of-imported-struct-field"
    if e.kind == "AttributeError" and "NoneType" in str(e.exc) and _empty_files(program):
        return "empty-file"
    if e.kind == "YAMLSyntaxError" and _has_special_string(program):
        return "string-special"
    if e.kind == "RecursionError" and "many-symbols" in program.classes and "expand_expression" in fn:
        return "many-symbols"
    return "general"


def case_findings(program: G.Program, ex: L.Exam):
    """[(key, what)]"""
    out = []
    if ex.hung:
        return out  # counted as inconclusive by the caller
    from checks.c04 import generated_collisions

    coll = generated_collisions(ex.ref) if ex.ref is not None else generated_collisions(L.sig_from_program(program)) if isinstance(program, G.Program) else set()
    if coll:
        # a definition named like a name the compilers generate for another one (struct MT_X next to message X): the compiler may
        # refuse it; if it accepts it the outputs must load
        if ex.compile_error is not None and ex.compile_error.kind == "DuplicateNameError":
            return out
        inner = _case_findings(program, ex)
        return [(k if not k.endswith("/general") and not k.endswith("/string-special") else k.rsplit("/", 1)[0] + "/generated-name-collision", w) for k, w in inner]
    return _case_findings(program, ex)


def _case_findings(program: G.Program, ex: L.Exam):
    out = []
    if ex.compile_error is not None:
        e = ex.compile_error
        cls = classify_compile_error(program, e)
        if e.is_parser_error:
            out.append((f"parser/rejected-wellformed/{e.kind}/{cls}", f"the compiler rejects a well-formed program: {e}"[:400]))
        else:
            out.append((f"parser/{e.kind}/{cls}", f"the compiler raises an internal error on a well-formed program: {e} (in {'/'.join(e.innermost())})"[:400]))
        return out
    special = _has_special_string(program)
    # ---- Python
    raw = ex.raw.get("python")
    if raw is not None:
        if not raw["ok"]:
            er = raw["error"]
            name = None
            m = re.search(r"name '(\w+)' is not defined", er["msg"])
            if m:
                name = m.group(1)
            cls = _name_class(program, name) if name else ("string-special" if special and er["type"] == "SyntaxError" else "general")
            out.append((f"python/{er['type']}/{cls}", f"importing the generated Python module fails: {er['type']}: {er['msg']} (line {er.get('line')}: {er.get('text')})"[:400]))
        else:
            for n, d in ex.ref["defs"].items():
                if d["cat"] != "message":
                    continue
                c = raw["classes"].get("MDF_" + n)
                if c is None or "error" in c:
                    out.append(("python/message-class-missing/general", f"the generated Python module defines no usable class MDF_{n}"))
                elif c.get("registered") is not True:
                    out.append(("python/not-registered/general", f"get_msg_cls({c.get('type_id')}) is not MDF_{n} after importing the module"))
                elif c.get("type_id") != d["id"]:
                    out.append(("python/wrong-type-id/general", f"MDF_{n}.type_id is {c.get('type_id')}, defined as {d['id']}"))
    # ---- C
    if ex.c_syntax is not None and not ex.c_syntax[0]:
        text = ex.c_syntax[1]
        m = re.search(r"unknown type name .(\w+).", text)
        cls = "name-shared-with-another-namespace" if "cross-namespace-names" in program.classes and ("unknown type name" in text or "undeclared" in text) else \
            "user-dir-named-core_defs" if "dir-core_defs" in program.classes and ("unknown type name" in text or "undeclared" in text) else \
            _name_class(program, m.group(1)) if m else ("string-special" if special and ("terminating" in text or "expected" in text or "stray" in text) else "general")
        out.append((f"c/does-not-compile/{cls}", f"gcc rejects the generated header: {text}"[:400]))
    # ---- JavaScript
    raw = ex.raw.get("js")
    if raw is not None:
        if not raw["ok"]:
            er = raw["error"]
            m = re.search(r"reading '(\w+)'|setting '(\w+)'|(\w+) is not defined", er["msg"])
            name = next((g for g in m.groups() if g), None) if m else None
            cls = _name_class(program, name) if name else ("string-special" if special and er["type"] == "SyntaxError" else "general")
            out.append((f"js/import-{er['type']}/{cls}", f"importing the generated JavaScript module fails: {er['type']}: {er['msg']}"[:400]))
        else:
            for kind, where, text in L.js_problems(raw):
                if kind.startswith("factory-throws"):
                    m = re.search(r"RTMA\.(?:aliases|SDF|MDF)\.(\w+) is not a function", text)
                    cls = _name_class(program, m.group(1)) if m else "general"
                    if m and cls == "general" and m.group(1) in L.core_names():
                        cls = "alias-native"
                    out.append((f"js/{kind.replace('/', '-')}/{cls}", f"JavaScript factory RTMA.{where} throws: {text}"[:400]))
                else:
                    out.append((f"js/{kind}/struct-array", f"JavaScript factory RTMA.{where}: objects are shared ({kind})"[:400]))
            for sec in ("SDF", "MDF"):
                for n, d in ex.ref["defs"].items():
                    if (d["cat"] == "message") == (sec == "MDF") and n not in raw.get(sec, {}):
                        out.append((f"js/factory-missing/general", f"RTMA.{sec}.{n} does not exist"))
    # ---- MATLAB
    e = ex.matlab_error
    if e is not None:
        if isinstance(e, L.MatlabUndefined):
            leaf = e.path.split(".")[-1]
            if "(mtn)" in e.text:
                hit = [n for n in ex.ref["mt"] if any(p in n and n.replace(p, "", 1) == leaf for p in PREFIXES)]
                cls = ("name-contains-" + next(p for p in PREFIXES if p in hit[0])) if hit else "general"
            else:
                cls = _name_class(program, leaf)
            out.append((f"matlab/undefined-field/{cls}", f"the MATLAB script refers to a field it has not defined: {e}"[:400]))
        else:
            cls = "string-control" if "string-control" in program.classes and "defines" in e.text else "string-special" if special and "defines" in e.text else "general"
            out.append((f"matlab/{type(e).__name__}/{cls}", f"the MATLAB script is not executable: {e}"[:400]))
    return out


def shape_of(program: G.Program):
    cross = {"cross-file-struct-field", "cross-file-message-field", "reuse-cross-file", "alias-of-imported-alias", "alias-of-imported-struct",
             "alias-of-imported-struct-field", "const-expr-imported"}
    nontrivial = bool(program.classes & cross) or "alias-field" in program.classes
    interesting = sorted(c for c in program.classes if not c.startswith("const-") and c not in ("message", "struct", "host-id", "module-id"))
    return nontrivial, (program.shape, tuple(interesting), tuple(sorted(program.options.items())))


def run_case(E: L.Examiner, program: G.Program, res: Result = None, fresh_py=True):
    ex = E.examine(program, program.compile_kwargs(), expect=L.sig_from_program(program), fresh_py=fresh_py, c_mode="syntax")
    if res is not None:
        res.inconclusive += len(ex.timeouts)
    fnd = case_findings(program, ex)
    if res is not None:
        res.count("programs")
        res.count("compile-did-not-return" if ex.hung else "compiled" if ex.compile_error is None else "compile-failed")
        if ex.compile_error is None and not ex.hung:
            res.count("python-fresh-interpreter" if fresh_py is True else "python-forked-pristine-interpreter")
            res.count("c-header-compiled" if ex.c_syntax is not None else "c-header-not-standalone")
            res.count("matlab-with-core" if program.import_coredefs else "matlab-without-core")
            res.count("js-factories-called", sum(len(ex.raw.get("js", {}).get(s, {})) for s in ("SDF", "MDF")) if ex.raw.get("js", {}).get("ok") else 0)
        res.count("shape/" + program.shape)
        for c in program.classes:
            if c in SUSPECT or c in ("cross-file-struct-field", "cross-file-message-field", "reuse-cross-file", "alias-field", "alias-of-alias",
                                     "alias-of-imported-alias", "message-in-message", "struct-array", "reserved-range-dash", "reserved-range-to",
                                     "multi-path", "cycle", "respell", "signal", "needs-padding", "string-yamlish", "cross-namespace/core",
                                     "cross-namespace/user") or c in EXPRS or c in NAMES or c.startswith("backend-literal/"):
                res.count("class/" + c)
        nt, sh = shape_of(program)
        if nt and ex.compile_error is None and not ex.hung:
            res.shape(sh)
            res.count("nontrivial")
        if fnd:
            res.count("programs-with-findings")
    return fnd


class _NoModel:
    """Stands in for the generator's model of hand-written files."""
    classes = frozenset()

    def by_name(self, name):
        raise KeyError(name)

    def resolve_type(self, name):
        raise KeyError(name)


def run_module_name_case(E: L.Examiner, kind, name, src, opts, res: Result = None):
    ex = E.examine(src, opts, expect=None, fresh_py="fork", c_mode="syntax")
    if res is not None:
        res.count("module-name-programs")
        res.inconclusive += len(ex.timeouts)
    if ex.compile_error is not None and ex.compile_error.is_parser_error:
        if res is not None:
            res.count("module-name-programs/refused-by-the-compiler")
        return []
    dk = kind.split("/")[-1]
    out = []
    for key, what in case_findings(_NoModel(), ex):
        lang, fail = key.split("/")[:2]
        out.append((f"{lang}/{fail}/name-used-by-generated-python-{dk}", f"[{dk} named {name}] {what}"))
    if res is not None:
        res.count("module-name-programs/accepted")
    return out


def run_hygiene_case(E: L.Examiner, program: G.Program, res: Result = None, fresh_py="fork"):
    """A closure with one construct of vlib.defgen.add_hygiene: the compiler may refuse it with one of its own errors (counted);
    an internal error, or an accepted closure whose output does not load, is a finding under the construct's own class."""
    exp = program.expect
    label = exp["label"]
    ex = E.examine(program, program.compile_kwargs(), expect=None, fresh_py=fresh_py, c_mode="syntax")
    if res is not None:
        res.count("hygiene-programs")
        res.count("hygiene/" + label)
        res.inconclusive += len(ex.timeouts)
    if ex.hung:
        return []
    if ex.compile_error is not None and ex.compile_error.is_parser_error:
        if res is not None:
            res.count("hygiene-programs/refused-by-the-compiler")
        return []
    out = []
    for key, what in _case_findings(_NoModel(), ex):
        lang, fail = key.split("/")[:2]
        out.append((f"{lang}/{fail}/{label}", f"[{exp['hygiene']}: {exp.get('name')}] {what}"[:400]))
    if res is not None and ex.compile_error is None:
        res.count("hygiene-programs/accepted")
        if not out:
            res.count("hygiene-programs/accepted-and-all-outputs-load")
    return out


def st_programs():
    plain = G.programs()
    skel = G.programs(skeleton=True)
    rich = G.programs(skeleton=True, rich=True)
    opt = st.sampled_from([SUSPECT, SUSPECT[:2], SUSPECT[2:3], SUSPECT[3:4], SUSPECT[4:5], SUSPECT[5:]]).flatmap(lambda a: G.programs(skeleton=True, allow=a))
    exprs = st.sampled_from([EXPRS, EXPRS[:1], EXPRS[1:2], EXPRS[2:]]).flatmap(lambda a: G.programs(allow=a, rich=True))
    hyg = G.hygiene_programs(kinds=HYGIENE, max_files=3)
    names = G.programs(allow=NAMES + ("string-control",), max_files=4)
    return st.one_of(plain, skel, rich, opt, opt, opt, exprs, exprs, hyg, names)


def shard(seed, n, idx, quick):
    res = Result()
    E = L.Examiner()
    k = [0]
    try:
        def body(program):
            k[0] += 1
            fresh = True if k[0] <= 2 else "fork"
            if "hygiene" in program.classes:
                for key, what in run_hygiene_case(E, program, res):
                    res.add_finding(key, what, {"key": key, "program": program.to_json()})
                return
            for key, what in run_case(E, program, res, fresh_py=fresh):
                res.add_finding(key, what, {"key": key, "program": program.to_json()})
            if len(res.samples) < 2:
                res.sample({"shape": program.shape, "options": program.options, "classes": sorted(program.classes)[:24], "files": list(program.files)})

        # covering programs (hand-written, every run): constants whose names contain one another, used together in
        # constant expressions and array lengths; every native name, long float constants, nested arrays
        from checks.c04 import alias_chain_program, covering_program, dependency_diamond_program, import_diamond_program, substring_program

        cov = [substring_program(idx % 2 == 0), alias_chain_program(idx % 4 < 2, idx % 2)] + ([covering_program(idx % 2 == 1, idx % 2)] if idx < 4 else [])
        cov.append(dependency_diamond_program(idx % 4 >= 2, idx % 2))
        cov.append(import_diamond_program(idx % 2 == 0))
        # every accepted way of calling a definition like a definition of another namespace (core names / user names), and every text of
        # the generator's string vocabulary (line breaks, lines that look like YAML, colons glued to text ...), a quarter per shard
        cov.append(G.build_cross_namespace_cover_program(idx % 4 == 0) if idx % 4 < 2 else G.build_string_cover_program(idx % 4 == 2, part=idx // 4, parts=4))
        for program in cov:
            for key, what in run_case(E, program, res, fresh_py="fork"):
                res.add_finding(key, what, {"key": key, "program": program.to_json()})
            res.evaluations += 1
            res.count("covering-programs")
        # definitions named like something the generated Python module imports or defines for itself (Double, Struct, ClassVar,
        # MessageData, ...): legal identifiers in all four languages.  The compiler may refuse them; if it accepts one, every
        # output must load.  Rotating slice in the quick tier, all 135 in the thorough tier.
        from checks.c04 import module_name_cases

        mn = [c for j, c in enumerate(module_name_cases()) if j % 16 == idx]
        if quick:
            start = (seed * 3) % len(mn)
            mn = [mn[(start + j) % len(mn)] for j in range(2)]
        for kind, name, src, opts in mn:
            for key, what in run_module_name_case(E, kind, name, src, opts, res):
                res.add_finding(key, what, {"key": key, "module_name": [kind, name], "src": src, "opts": opts})
            res.evaluations += 1
        # value / name hygiene: every kind once per run on the smallest base (kind j on shard j mod 16), core definitions on or off by seed
        for j, kind in enumerate(HYGIENE):
            if j % 16 == idx:
                q = G.add_hygiene(G.minimal_program(import_coredefs=bool((seed + j) % 2)), G.RandomChooser(seed * 100 + j), kind)
                for key, what in run_hygiene_case(E, q, res):
                    res.add_finding(key, what, {"key": key, "program": q.to_json()})
                res.evaluations += 1
        hyp_run(body, st_programs(), seed, n, res, collect=True)
    finally:
        E.close()
        L.cleanup()
    return res


def run(ctx: RunContext) -> int:
    t0 = time.time()
    n = ctx.scale(28, 260)
    res = run_shards(shard, [(derive_seed(ctx.seed, i), n, i, ctx.quick) for i in range(16)])
    return conclude(ctx, res, RULE, ASSUME, t0)


def replay_trace(trace: dict):
    E = L.Examiner()
    try:
        if "module_name" in trace:
            fnd = run_module_name_case(E, trace["module_name"][0], trace["module_name"][1], trace["src"], trace["opts"], None)
        elif "hygiene" in trace["program"].get("classes", ()):
            fnd = run_hygiene_case(E, G.Program.from_json(trace["program"]), None, fresh_py=True)
        else:
            fnd = run_case(E, G.Program.from_json(trace["program"]), None, fresh_py=True)
    finally:
        E.close()
        L.cleanup()
    for key, what in fnd:
        if key == trace.get("key"):
            raise Violation(key, what, trace)
