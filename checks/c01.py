"""C01 - pub/sub routing is exact: right recipients, exactly once, unmodified."""
from __future__ import annotations

import time

from hypothesis import strategies as st

from vlib import mgen
from vlib.common import Result, RunContext, Violation, conclude, derive_seed, hyp_run, run_shards
from vlib.mgen import BURST, CLOSE, CONNECT, DISCONNECT, OPEN, PUB, READY, SETNAME, STEP, SUB, Profile

RULE = ("Hypothesis draws histories of open/connect/subscribe/unsubscribe/pause/resume/subscribe-all/"
        "publish/disconnect/close operations by up to 6 clients plus manager rounds with a generated ordered "
        "ready subset, writable subset and clock step; executed on the real MessageManager over the in-memory "
        "network and on the reference model. Non-trivial = a publish with >=1 expected recipient and >=1 connected "
        "non-recipient (or unwritable subscriber); distinct = (type class, addressed?, size class, #recipients, "
        "#non-recipients, #unwritable, logger recipient?, ALL-subscriber recipient?, self-delivery?).")
ASSUME = [
    "the kernel is replaced by an in-memory stream model (FIFO byte queues, FIN/RST, MSG_WAITALL semantics)",
    "publishes are identified by a tag in the first 8 payload bytes, or by send_time for payloads < 8 bytes",
    "service order / writable set / clock are supplied by the harness through the manager's module-level select, random and time names",
]

PROFILE = Profile(
    name="routing",
    oracles={"routing", "framing"},
    weights={STEP: 10, PUB: 10, SUB: 8, CONNECT: 5, OPEN: 2, DISCONNECT: 1, CLOSE: 1, READY: 1, SETNAME: 1},
)

CFGS = [
    {"timecode": False, "timing": True, "log": "error"},
    {"timecode": True, "timing": True, "log": "error"},
    {"timecode": False, "timing": False, "log": "info"},
    {"timecode": True, "timing": False, "log": "silent"},
]


def shard(seed: int, n_examples: int, max_len: int) -> Result:
    res = Result()

    def body(v):
        ci, raws = v
        cfg = CFGS[ci]
        w = mgen.run_history(cfg, PROFILE, raws, "C01")
        for s in w.shapes:
            res.shape(*s)
        for k, n in w.stats.items():
            res.count(k, n)
        res.count("histories")
        res.count("rounds", w.rounds)
        if w.stats.get("pub-nontrivial") and len(res.samples) < 3:
            res.sample({"cfg": cfg, "ops": w.trace[:60]})

    hyp_run(body, st.tuples(st.integers(0, len(CFGS) - 1), mgen.raw_ops(PROFILE, max_len)), seed, n_examples, res)
    return res


def run(ctx: RunContext) -> int:
    t0 = time.time()
    n = ctx.scale(1500, 40000)
    max_len = 60 if ctx.quick else 140
    res = run_shards(shard, [(derive_seed(ctx.seed, i), n, max_len) for i in range(16)])
    return conclude(ctx, res, RULE, ASSUME, t0)


def replay_trace(trace: dict):
    mgen.replay_history(trace, "C01")
