"""C01 - pub/sub routing is exact: right recipients, exactly once, unmodified."""
from __future__ import annotations

import time

from hypothesis import strategies as st

from vlib import mgen
from vlib.simnet import Stall
from vlib.common import Result, RunContext, Violation, conclude, derive_seed, hyp_run, run_shards
from vlib.mgen import BURST, CLOSE, CONNECT, DISCONNECT, OPEN, PUB, READY, SETNAME, STEP, SUB, Profile

RULE = ("Hypothesis draws histories of open/connect/subscribe/unsubscribe/pause/resume/subscribe-all/"
        "publish/disconnect/close operations by up to 6 clients plus manager rounds with a generated ordered "
        "ready subset, writable subset and clock step; executed on the real MessageManager over the in-memory "
        "network and on the reference model. Non-trivial = a publish with >=1 expected recipient and >=1 connected "
        "non-recipient (or unwritable subscriber); distinct = (type class, addressed?, size class, #recipients, "
        "#non-recipients, #unwritable, logger recipient?, ALL-subscriber recipient?, self-delivery?). A second, end-to-end layer "
        "runs 2-4 real pyrtma.Client objects (send_message / read_message, registered message classes of 0, 8, 104 and 4096 bytes) "
        "against the manager on the same simulator and checks recipients, exactly-once, header fields and payload through the "
        "public client API, including the client-side refusal of out-of-range destinations.")
ASSUME = [
    "the kernel is replaced by an in-memory stream model (FIFO byte queues, FIN/RST, MSG_WAITALL semantics)",
    "publishes are identified by a tag in the first 8 payload bytes, or by send_time for payloads < 8 bytes",
    "service order / writable set / clock are supplied by the harness through the manager's module-level select, random and time names",
]

PROFILE = Profile(
    name="routing",
    oracles={"routing", "framing"},
    weights={STEP: 10, PUB: 10, SUB: 8, CONNECT: 5, OPEN: 2, DISCONNECT: 1, CLOSE: 1, READY: 1, SETNAME: 1},
    zero_source=True,
)

# the same routing oracle while deliveries to OTHER subscribers fail (a subscriber that left abruptly is discovered on the
# write side: EPIPE / ECONNRESET / first write succeeds; injected failure at a byte offset): the remaining recipients of
# that very message must still get it exactly once and unmodified
from vlib.mgen import FAULT  # noqa: E402

ROUTING_FAULTS = Profile(
    name="routing-faults",
    oracles={"routing", "framing"},
    weights={STEP: 10, PUB: 12, SUB: 7, CONNECT: 4, OPEN: 2, DISCONNECT: 1, CLOSE: 5, FAULT: 2, READY: 1},
    types=[1234, 5000, 33, 8, 32, 0, 9999],
    sizes=[0, 8, 64, 4096, 1, 7],
    close_modes=["epipe", "reset", "first-ok", "silent"],
    dts=[0.0],
    max_conns=8,
    p_logger=4,
)
# the same routing oracle next to identity events and (almost) without logger modules: connects that ask for an id or name
# already held (refused, or admitted as a second instance when both allow it), out-of-range ids, second instances leaving -
# none of which may change who receives an addressed or a broadcast message among the modules that stay
ROUTING_IDENTITY = Profile(
    name="routing-identity",
    oracles={"routing", "framing"},
    weights={STEP: 10, PUB: 12, SUB: 6, CONNECT: 9, OPEN: 4, DISCONNECT: 3, CLOSE: 3, READY: 1, SETNAME: 1},
    types=[1234, 5000, 33, 8, 0, 9999],
    sizes=[0, 8, 64, 1, 7],
    clash_ids=True,
    clash_extra=(100, 200, -1),
    static_ids=[10, 11, 50],
    dts=[0.0],
    max_conns=8,
    p_logger=40,
)
FAULT_CFGS = [{"timecode": False, "timing": True, "log": "silent"}, {"timecode": True, "timing": False, "log": "silent"}]

CFGS = [
    {"timecode": False, "timing": True, "log": "error"},
    {"timecode": True, "timing": True, "log": "error"},
    {"timecode": False, "timing": False, "log": "info"},
    {"timecode": True, "timing": False, "log": "silent"},
]


def shard(seed: int, n_examples: int, max_len: int) -> Result:
    res = Result()

    def body(v):
        ci, raws = v
        cfg = CFGS[ci]
        w = mgen.run_history(cfg, PROFILE, raws, "C01")
        harvest(w, cfg)

    def body_faults(v):
        ci, raws = v
        cfg = FAULT_CFGS[ci % 2]
        w = mgen.run_history(cfg, ROUTING_FAULTS, raws, "C01")
        harvest(w, cfg)
        res.count("histories-with-write-failures" if w.stats.get("write-failure") else "histories-faults-profile")

    def harvest(w, cfg):
        for s in w.shapes:
            res.shape(*s)
        for k, n in w.stats.items():
            res.count(k, n)
        res.count("histories")
        res.count("rounds", w.rounds)
        if w.stats.get("pub-nontrivial") and len(res.samples) < 3:
            res.sample({"cfg": cfg, "ops": w.trace[:60]})

    hyp_run(body, st.tuples(st.integers(0, len(CFGS) - 1), mgen.raw_ops(PROFILE, max_len)), seed, n_examples * 3 // 4, res)
    hyp_run(body_faults, st.tuples(st.integers(0, 1), mgen.raw_ops(ROUTING_FAULTS, max_len, min_clients=3)), seed + 7, n_examples // 4, res)

    def body_identity(v):
        ci, raws = v
        cfg = FAULT_CFGS[ci % 2]
        w = mgen.run_history(cfg, ROUTING_IDENTITY, raws, "C01")
        harvest(w, cfg)
        res.count("histories-identity-profile")
        if w.stats.get("connect-refused"):
            res.count("histories-identity-profile-with-a-refused-connect")

    hyp_run(body_identity, st.tuples(st.integers(0, 1), mgen.raw_ops(ROUTING_IDENTITY, max_len, min_clients=3)), seed + 13, n_examples // 4, res)
    return res


# ---- end-to-end layer: real pyrtma.Client objects on both sides ----------------------------------------
E2E_TYPES = {2001: 8, 2002: 104, 2003: 0, 2004: 4096}
_E2E_CLS = {}


def e2e_classes():
    import pyrtma
    from pyrtma.message_base import MessageMeta
    from pyrtma.validators import ByteArray

    if _E2E_CLS:
        return _E2E_CLS
    for tid, size in E2E_TYPES.items():
        ns = dict(type_id=tid, type_name=f"E2E_{tid}", type_size=size, type_source="", type_def="", type_hash=0x1000 + tid)
        if size:
            ns["blob"] = ByteArray(size)
        cls = MessageMeta(f"MDF_E2E_{tid}", (pyrtma.MessageData,), ns)
        pyrtma.message_def(cls)
        _E2E_CLS[tid] = cls
    return _E2E_CLS


def e2e_case(case: dict, res: Result = None):
    """case = {"timecode": b, "clients": [{"id": i, "logger": b}], "ops": [...]} with ops
    ("sub"|"unsub"|"pause"|"resume", k, [types]) / ("send", k, type, dest_mod, dest_host)."""
    import logging

    from pyrtma.exceptions import InvalidDestinationHost, InvalidDestinationModule, InvalidSubscription
    from vlib import proto as P
    from vlib.simclient import ClientSim

    classes = e2e_classes()
    kept = []
    cs = ClientSim(timecode=case["timecode"], send_msg_timing=False, log_level=logging.CRITICAL + 10)
    try:
        cl = []
        for spec in case["clients"]:
            c = cs.new_client(module_id=spec["id"], timecode=case["timecode"])
            c.connect("127.0.0.1:7111", logger_status=bool(spec["logger"]))
            cl.append(c)
        cs.pump()
        subs = [set() for _ in cl]  # reference model: subscribed types (ALL as the sentinel)
        seq = 0
        for op in case["ops"]:
            kind, k = op[0], op[1]
            c = cl[k]
            if kind in ("sub", "unsub", "pause", "resume"):
                types = list(op[2])
                try:
                    {"sub": c.subscribe, "unsub": c.unsubscribe, "pause": c.pause_subscription, "resume": c.resume_subscription}[kind](types)
                except InvalidSubscription:
                    cs.pump()
                    continue
                cs.pump()
                if kind in ("sub", "resume"):
                    if P.ALL_MESSAGE_TYPES in types:
                        subs[k] = {P.ALL_MESSAGE_TYPES}
                    elif P.ALL_MESSAGE_TYPES not in subs[k]:
                        subs[k] |= set(types)
                else:
                    if P.ALL_MESSAGE_TYPES in types:
                        subs[k] = set()
                    elif P.ALL_MESSAGE_TYPES not in subs[k]:
                        subs[k] -= set(types)
                continue
            _, k, t, dm, dh = op
            seq += 1
            msg = classes[t]()
            size = E2E_TYPES[t]
            if size:
                msg.blob = bytes(((seq * 31 + i * 7) & 0xFF) for i in range(size))
            valid = 0 <= dm <= P.MAX_MODULES and 0 <= dh <= P.MAX_HOSTS
            try:
                c.send_message(msg, dest_mod_id=dm, dest_host_id=dh)
                raised = False
            except (InvalidDestinationModule, InvalidDestinationHost):
                raised = True
            if raised == valid:
                raise Violation("e2e/dest-validation", f"send_message(dest_mod_id={dm}, dest_host_id={dh}) "
                                f"{'raised' if raised else 'did not raise'}", case)
            cs.pump()
            if cs.sim.dead:
                raise Violation("manager-died", cs.sim.dead.strip().splitlines()[-1], case)
            for j, r in enumerate(cl):
                got = []
                while True:
                    try:
                        m = r.read_message(timeout=0)
                    except Stall as e:
                        raise Violation("e2e/short-frame", f"client {j} (id {r.module_id}) would block for ever in read_message(): the "
                                        f"manager delivered fewer bytes than the frame header announces ({e})", case)
                    if m is None:
                        # timeout 0 returns None for a filtered frame as well: look whether bytes are left
                        if r._sock.rx:
                            continue
                        break
                    if m.header.src_mod_id != 0:
                        got.append(m)
                eligible = (not raised) and (P.ALL_MESSAGE_TYPES in subs[j] or t in subs[j]) and \
                    (dm == 0 or r.module_id == dm or bool(case["clients"][j]["logger"]))
                if eligible and len(got) != 1:
                    raise Violation("e2e/missing-or-duplicate", f"client {j} (id {r.module_id}, subscribed {sorted(subs[j])}) read {len(got)} "
                                    f"messages after client {k} sent type {t} to module {dm} host {dh}", case)
                if not eligible and got:
                    raise Violation("e2e/extra", f"client {j} (id {r.module_id}, subscribed {sorted(subs[j])}) read a message of type "
                                    f"{got[0].header.msg_type} it is not an eligible recipient of (sent to module {dm})", case)
                for m in got:
                    h = m.header
                    bad = []
                    if h.msg_type != t:
                        bad.append(("msg_type", t, h.msg_type))
                    if h.src_mod_id != c.module_id:
                        bad.append(("src_mod_id", c.module_id, h.src_mod_id))
                    if h.dest_mod_id != dm or h.dest_host_id != dh:
                        bad.append(("dest", (dm, dh), (h.dest_mod_id, h.dest_host_id)))
                    if h.num_data_bytes != size or bytes(m.data) != bytes(msg):
                        bad.append(("payload", size, h.num_data_bytes))
                    if bad:
                        raise Violation("e2e/modified", f"message read by client {j} differs from what client {k} sent: {bad}", case)
                    # the application keeps what it was handed: it must still be unchanged after later reads
                    kept.append((j, m, bytes(m.header), bytes(m.data), len(kept)))
                if res is not None and eligible:
                    res.count("e2e-deliveries")
            if res is not None:
                nrec = sum(1 for j in range(len(cl)) if (P.ALL_MESSAGE_TYPES in subs[j] or t in subs[j]))
                res.count("e2e-sends")
                if 0 < nrec < len(cl) and not raised:
                    res.shape("e2e", t, 0 if dm == 0 else 1, nrec, any(x["logger"] for x in case["clients"]), k in [j for j in range(len(cl)) if t in subs[j]])
        for j, m, hb, db, nth in kept:
            if bytes(m.header) != hb or bytes(m.data) != db:
                raise Violation("e2e/message-changed-after-later-read", f"delivery #{nth} returned to client {j} no longer holds the bytes it had "
                                f"when read_message returned it ({len(kept) - nth - 1} messages were read afterwards): a message handed to "
                                f"the application shares storage with later ones", case)
        if res is not None and len(kept) >= 2:
            res.count("e2e-messages-rechecked-at-end", len(kept))
    finally:
        cs.close()


def shard_e2e(seed: int, n: int) -> Result:
    from vlib import proto as P

    res = Result()
    types = st.sampled_from(list(E2E_TYPES))
    ids = [10, 11, 12, 0]

    @st.composite
    def cases(draw):
        nc = draw(st.integers(2, 4))
        clients = [{"id": ids[i] if draw(st.booleans()) else 0, "logger": draw(st.integers(0, 4)) == 4} for i in range(nc)]
        held = [10, 11, 12, 100, 101, 102]
        ops = []
        for _ in range(draw(st.integers(4, 22))):
            k = draw(st.integers(0, nc - 1))
            if draw(st.integers(0, 2)) == 0:
                kind = draw(st.sampled_from(["sub", "sub", "sub", "unsub", "pause", "resume"]))
                tl = draw(st.lists(st.one_of(types, types, types, st.just(P.ALL_MESSAGE_TYPES)), min_size=1, max_size=3))
                ops.append((kind, k, tl))
            else:
                ops.append(("send", k, draw(types), draw(st.sampled_from([0, 0, 0] + held + [150, 200, 201, -1])),
                            draw(st.sampled_from([0, 0, 0, 1, 5, 6, -1]))))
        return {"timecode": draw(st.booleans()), "clients": clients, "ops": ops}

    def body(case):
        e2e_case(case, res)
        res.count("e2e-histories")

    hyp_run(body, cases(), seed, n, res)
    return res


# ---- small-scope exhaustive enumeration ----------------------------------------------------------------
ENUM_SETUP = [
    {"op": "open"}, {"op": "connect", "c": 0, "ver": "v2v1", "id": 10, "logger": 0, "daemon": 0, "multi": 0, "name": "a", "pid": 1},
    {"op": "open"}, {"op": "connect", "c": 1, "ver": "v1", "id": 11, "logger": 0, "daemon": 0, "multi": 0, "name": "", "pid": 2},
    {"op": "open"}, {"op": "connect", "c": 2, "ver": "v2", "id": 12, "logger": 1, "daemon": 0, "multi": 0, "name": "lg", "pid": 3},
    {"op": "_drain"},
    {"op": "sub", "c": 2, "kind": "SUBSCRIBE", "type": 1234}, {"op": "_drain"},
]
ALLT = 0x7FFFFFFF


def enum_symbols():
    out = []
    for c, other in ((0, 11), (1, 10)):
        out += [
            {"op": "sub", "c": c, "kind": "SUBSCRIBE", "type": 1234}, {"op": "sub", "c": c, "kind": "UNSUBSCRIBE", "type": 1234},
            {"op": "sub", "c": c, "kind": "PAUSE", "type": 1234}, {"op": "sub", "c": c, "kind": "RESUME", "type": 1234},
            {"op": "sub", "c": c, "kind": "SUBSCRIBE", "type": ALLT}, {"op": "sub", "c": c, "kind": "UNSUBSCRIBE", "type": ALLT},
            {"op": "pub", "c": c, "type": 1234, "dm": 0, "dh": 0, "size": 8, "src": 10 + c},
            {"op": "pub", "c": c, "type": 1234, "dm": other, "dh": 0, "size": 0, "src": 10 + c},
        ]
    return out


def run_enum_script(cfg, ops, res: Result = None, oracles=None, prop="C01"):
    from vlib.world import World

    w = World(cfg, oracles or PROFILE.oracles, prop)
    try:
        for op in ops:
            if op["op"] == "_drain":
                w.drain()
            else:
                w.apply(op)
        w.drain()
        w.final_checks()
        if res is not None:
            for sh in w.shapes:
                res.shape(*sh)
    finally:
        w.close()


def shard_enum(idx, nshards, depth, oracles=None, prop="C01", need_pub=True):
    """Every sequence of <= depth operations over 16 symbols (2 acting clients x {sub, unsub, pause, resume, sub-all,
    unsub-all, broadcast publish, directed publish}) next to a logger subscriber, each operation served before the next."""
    import itertools

    res = Result()
    syms = enum_symbols()
    n = 0
    i = 0
    cfg = CFGS[0]
    for d in range(1, depth + 1):
        for seq in itertools.product(range(len(syms)), repeat=d):
            i += 1
            if i % nshards != idx:
                continue
            # a sequence without a publish exercises no delivery: its prefixes with a publish cover it
            if need_pub and not any(syms[k]["op"] == "pub" for k in seq):
                continue
            ops = list(ENUM_SETUP)
            for k in seq:
                ops += [syms[k], {"op": "_drain"}]
            try:
                run_enum_script(cfg, ops, res, oracles, prop)
            except Violation as v:
                res.add_finding(v.key, v.what, {"kind": "script", "cfg": cfg, "ops": ops})
            n += 1
    res.evaluations += n
    res.count("small-scope-sequences-enumerated", n)
    return res


def shard_any(kind, *a):
    return {"raw": shard, "e2e": shard_e2e, "enum": shard_enum}[kind](*a)


def run(ctx: RunContext) -> int:
    t0 = time.time()
    n = ctx.scale(1500, 40000)
    max_len = 60 if ctx.quick else 140
    jobs = [("raw", derive_seed(ctx.seed, i), n, max_len) for i in range(14)]
    jobs += [("e2e", derive_seed(ctx.seed, 50 + i), ctx.scale(250, 6000)) for i in range(2)]
    depth = 4 if ctx.quick else 5
    jobs += [("enum", i, 16, depth) for i in range(16)]
    res = run_shards(shard_any, jobs)
    res.notes.append(f"sub-domain enumerated completely: every sequence of <= {depth} subscription-control / publish operations "
                     "(16 symbols, 2 acting clients + a logger subscriber) that contains a publish, each served before the next")
    return conclude(ctx, res, RULE, ASSUME, t0)


def replay_trace(trace: dict):
    if trace.get("kind") == "script":
        run_enum_script(trace["cfg"], trace["ops"])
    elif "clients" in trace:
        trace = dict(trace, ops=[tuple(o) for o in trace["ops"]])
        e2e_case(trace)
    else:
        mgen.replay_history(trace, "C01")
