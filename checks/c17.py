"""C17 - the data logger loses, duplicates and reorders nothing.

Engine E (vlib/sched.py): the real DataCollection / DataSet / formatters run with the module attributes
`data_collection.threading` and `data_collection.time` replaced by a cooperative scheduler and a virtual
clock, so the interleaving of the recording thread with the background writer thread (at the granularity
of Event/Thread operations) and the placement of flush and subdivision deadlines are inputs of the case.
"""
from __future__ import annotations

import json
import logging
import os
import shutil
import sys
import tempfile
import threading as _real_threading
import time as _real_time
import traceback

from hypothesis import strategies as st

from vlib.common import HarnessError, Result, RunContext, Violation, conclude, derive_seed, hyp_run, run_shards
from vlib.sched import Deadlock, Scheduler, ThreadingShim, VirtualClock, enumerate_schedules

import pyrtma
import pyrtma.core_defs as cd
import pyrtma.data_logger  # noqa: F401  registers the built-in formatters
import pyrtma.data_logger.data_collection as dc_mod
import pyrtma.data_logger.data_formatter as fmt_mod
import pyrtma.data_logger.data_set as ds_mod
from pyrtma.data_logger.data_collection import DataCollection
from pyrtma.data_logger.data_formatter import get_formatter
from pyrtma.data_logger.data_set import DataSet
from pyrtma.data_logger.metadata import LoggingMetadata
from pyrtma.header import MessageHeader, TimeCodeMessageHeader
from pyrtma.message import Message
from pyrtma.utils.quicklogger_reader import QLFileHeader, QLReader

PROP = "C17"

RULE = (
    "Hypothesis draws a pool of 0-4 data-set descriptions (mostly 2-3; formatter raw/json/quicklogger; msg_types = ALL, a "
    "subset of 5 core message types, ALL_MESSAGE_TYPES next to explicit types at a drawn position, a list naming a type "
    "more than once, or a list padded with zeros; continuous or 30 s subdivision; a name, sometimes shared with another "
    "description), a configuration pre-history (add_data_set, add_data_set under an existing name = update, "
    "rm_data_set of a configured or of an unknown name, in generated order; every description not configured by "
    "then is added; one case in three simply adds the pool in order) run on the stopped collection before the first "
    "start(), a history of update(msg|None) with clock steps dt in {0,1,16,31} s "
    "(flush period 15 s, subdivision 30 s, both read from the code), pause/resume, restart (stop, metadata update, "
    "sometimes 1-2 further configuration operations, "
    "start of the next recording of the same collection), direct trigger_write() calls of the recording thread, a "
    "final stop, a schedule tape, the header layout of the messages (MessageHeader, or TimeCodeMessageHeader as a "
    "Client(timecode=True) delivers; one layout per case) and the collection mode (writer thread, or "
    "use_thread=False); the real DataCollection/DataSet/formatters run under a cooperative scheduler that owns every "
    "Event/Thread operation of the recording and the writer thread, with a virtual clock. Immediately after every "
    "stop() - before close(), the next start() or garbage collection could flush anything, all objects still "
    "referenced - and once more after close(), the "
    "files of each data set are read back in subdivision order (raw: frame parser; json: Message.from_json per "
    "line; quicklogger: QLReader.load) and compared with the selected messages handed over while recording and not "
    "paused, per recording, for exactly the data sets configured when that recording was started (selected = the "
    "data set's list contains ALL_MESSAGE_TYPES or the message's type, however often). A thread can be preempted immediately before AND immediately after each of its "
    "Event/Thread operations (the plain code between two operations runs with the earlier or with the later one, by "
    "choice of the tape). Additionally schedules of small histories are enumerated depth-first with sleep-set "
    "reduction (an operation and a plain-code block of different threads commute): all schedules with any number "
    "of preemptions before operations and at most b preemptions taken immediately after an operation. Quick: 16 fixed "
    "histories (b=1, <=3000 schedules each) plus 16 Hypothesis-drawn histories with two flush deadlines (b=1, <=1000 "
    "each). Thorough: the fixed histories with b=1 and b=2, every history of <=4 updates with <=2 flush deadlines "
    "(with and without one pause/resume pair) with b=0 over a raw+json+quicklogger collection, continuous and "
    "subdivided, every such history of <=3 updates (continuous) / <=2 updates (subdivided) with b=1, <=6000 "
    "schedules each, plus 64 Hypothesis-drawn histories (b=1, <=3000 each); counters "
    "dfs-histories-complete / dfs-histories-truncated / dfs-schedules). Non-trivial = a run with >=2 completed "
    "writer cycles in which the writer was preempted between two of its synchronisation operations; distinct = "
    "(formatter set, #cycles, per-cycle preemption pattern, pause present, subdivision present, #subdivisions "
    "class, timeouts seen, data-set list re-bound, ALL mixed with explicit types). Counters with-config-* / "
    "with-selection-* / with-message-* give the frequency of each configuration and selection class."
)
ASSUME = [
    "interleavings are explored at the granularity of Event.is_set/set/clear/wait and Thread.start/join/is_alive: each "
    "operation is atomic, and each stretch of plain code between two operations of a thread is atomic (it can be "
    "ordered before or after the other thread's blocks, not interleaved with them)",
    "a timed wait that cannot proceed times out only when no other thread can run (its time-out branch is a pure "
    "polling loop in this code), virtual time never sleeps",
    "time is read through data_collection.time only (asserted at start-up: no other data-logger module binds time)",
    "messages handed over while paused are outside the property: their presence or absence in the files is not judged",
    "where subdivision boundaries fall is not judged, only the concatenation of the files in subdivision order",
    "disk errors (ENOSPC, EIO) are not modelled: files live on the local tmpfs/disk under /tmp",
    "the collection is re-configured (add_data_set / rm_data_set) only while it is stopped - before the first start() "
    "and between stop() and the next start() - as the DataLogger application enforces; at most 4 names (MAX_DATA_SETS "
    "is 6, DataCollectionFullError is not provoked)",
    "msg_types entries <= 0 are dropped by DataSet on purpose (0 pads the fixed-length ADD_DATA_SET array): whether a "
    "data set whose list holds a 0 and not ALL_MESSAGE_TYPES records messages of type 0 is not judged; files of data "
    "sets that were removed or replaced before a recording started are not looked at",
]

# ------------------------------------------------------------------------------------------ seams


def _check_seams():
    if getattr(dc_mod, "threading", None) is not _real_threading and not isinstance(
        getattr(dc_mod, "threading", None), ThreadingShim
    ):
        raise HarnessError("seam missing: pyrtma.data_logger.data_collection.threading is not the threading module")
    if getattr(dc_mod, "time", None) is not _real_time and not isinstance(getattr(dc_mod, "time", None), VirtualClock):
        raise HarnessError("seam missing: pyrtma.data_logger.data_collection.time is not the time module")
    import pyrtma.data_logger.formatters.json as fj
    import pyrtma.data_logger.formatters.quicklogger as fq
    import pyrtma.data_logger.formatters.raw as fr

    for m in (ds_mod, fmt_mod, fj, fq, fr):
        for nm in ("time", "threading", "datetime"):
            if hasattr(m, nm):
                raise HarnessError(f"{m.__name__} binds `{nm}`: the harness does not virtualise it there")
    for nm in ("start", "stop", "pause", "resume", "update", "trigger_write", "write", "close", "add_data_set"):
        if not callable(getattr(DataCollection, nm, None)):
            raise HarnessError(f"seam missing: DataCollection.{nm}")
    for nm in ("WRITE_PERIOD",):
        if not isinstance(getattr(DataCollection, nm, None), (int, float)):
            raise HarnessError(f"seam missing: DataCollection.{nm}")
    if not isinstance(getattr(DataSet, "MIN_INTERVAL", None), (int, float)):
        raise HarnessError("seam missing: DataSet.MIN_INTERVAL")
    for f in FORMATTERS:
        get_formatter(f)


FORMATTERS = ("raw", "json", "quicklogger")

_check_seams()

WRITE_PERIOD = float(DataCollection.WRITE_PERIOD)
SUBDIV = int(DataSet.MIN_INTERVAL)
DTS = (0, 1, int(WRITE_PERIOD) + 1, SUBDIV + 1)

# silence the package's own chatter (no behaviour depends on it)
dc_mod.print = lambda *a, **k: None  # shadows the builtin inside that module only
import pyrtma.utils.quicklogger_reader as _qlr_mod  # noqa: E402

_qlr_mod.print = lambda *a, **k: None  # the reader prints one line per unknown/odd-sized record of a corrupt file
_lg = logging.getLogger("data_logger")
_lg.addHandler(logging.NullHandler())
_lg.propagate = False
_lg.setLevel(logging.CRITICAL + 1)

# ------------------------------------------------------------------------------------------ messages

# index -> message class.  The last one has type id 0, which only an ALL selection can select.
TYPES = (
    cd.MDF_ACKNOWLEDGE,  # 0 bytes
    cd.MDF_MODULE_READY,  # 4 bytes
    cd.MDF_FAIL_SUBSCRIBE,  # 8 bytes
    cd.MDF_CLIENT_SET_NAME,  # 32 bytes (string)
    cd.MDF_DATA_LOGGER_STATUS,  # 24 bytes (doubles)
    cd.MDF_EXIT,  # 0 bytes, type id 0
)
N_SUBSET_TYPES = 5
HDR_SIZE = MessageHeader().size


def make_msg(mid: int, ti: int, timecode: bool = False) -> Message:
    """Message number `mid` (unique, = header.msg_count) of type TYPES[ti], contents derived from mid; with the
    header layout a Client(timecode=True) delivers when `timecode`."""
    cls = TYPES[ti]
    data = cls()
    if cls is cd.MDF_MODULE_READY:
        data.pid = 70000 + mid
    elif cls is cd.MDF_FAIL_SUBSCRIBE:
        data.mod_id = mid % 200
        data.msg_type = 5000 + mid
    elif cls is cd.MDF_CLIENT_SET_NAME:
        data.name = f"client-{mid:05d}"
    elif cls is cd.MDF_DATA_LOGGER_STATUS:
        data.timestamp = 1234.5 + mid
        data.elapsed_time = mid / 8.0
        data.is_recording = 1
        data.is_paused = mid % 2
    h = TimeCodeMessageHeader() if timecode else MessageHeader()
    if timecode:
        h.utc_seconds = 1_700_000_000 + mid
        h.utc_fraction = 1000 + mid
    h.msg_type = cls.type_id
    h.msg_count = mid
    h.send_time = 1000.0 + mid * 0.125
    h.recv_time = 1000.0 + mid * 0.125 + 0.0625
    h.src_host_id = 0
    h.src_mod_id = 10 + mid % 7
    h.dest_host_id = 0
    h.dest_mod_id = 0
    h.num_data_bytes = cls.type_size
    h.version = cls.type_hash
    return Message(h, data)


def frame(msg: Message) -> bytes:
    return bytes(msg.header) + bytes(msg.data)


def _selection(types):
    """A pool entry's "types" -> (selects every type, set of TYPES indices named explicitly, msg_types list for
    DataSet, list contains the padding value 0).

    "ALL" | list of: index into TYPES[:N_SUBSET_TYPES] | "ALL" (= ALL_MESSAGE_TYPES next to explicit ids) |
    "PAD" (= 0, the filler of the fixed-length msg_types array of ADD_DATA_SET; DataSet drops it).  The list is
    handed over as drawn: order and repetitions are part of the input, the selection is the set it denotes."""
    if types == "ALL":
        return True, frozenset(), [cd.ALL_MESSAGE_TYPES], False
    mts, idx, all_sub, pad = [], set(), False, False
    for t in types:
        if t == "ALL":
            all_sub = True
            mts.append(cd.ALL_MESSAGE_TYPES)
        elif t == "PAD":
            pad = True
            mts.append(0)
        elif isinstance(t, int) and 0 <= t < N_SUBSET_TYPES:
            idx.add(t)
            mts.append(TYPES[t].type_id)
        else:
            raise HarnessError(f"unknown msg_types entry {t!r}")
    return all_sub, frozenset(idx), mts, pad


def _slot(datasets, k) -> int:
    """Name slot of pool entry k: the DataSet is called ds<slot>; entries sharing a slot share the name, so adding
    one while the other is configured takes DataCollection.add_data_set's 'Updated data set' path."""
    s = datasets[k].get("slot")
    return k if s is None else int(s)


# ------------------------------------------------------------------------------------------ executor


class CaseInfo:
    __slots__ = ("choices", "tape", "cycles", "preempt", "timeouts", "n_sub_files", "n_expected", "paused_msgs",
                 "log", "restarts", "pruned", "direct_triggers", "triggers_while_pending", "cfg", "fmts", "has_sub")

    def __init__(self):
        self.choices = []
        self.tape = []
        self.cycles = 0
        self.preempt = ()
        self.timeouts = 0
        self.n_sub_files = 0
        self.n_expected = 0
        self.paused_msgs = 0
        self.log = []
        self.restarts = 0
        self.pruned = False
        self.direct_triggers = 0
        self.triggers_while_pending = 0
        self.cfg = set()  # classes of configuration / selection the case exercised (counter names)
        self.fmts = ()  # formatters of the data sets that took part in a recording
        self.has_sub = False  # ... one of them with a subdivision interval


DEFAULT_OPTS = {"timecode": False, "threaded": True, "pre": None}


def _opts(o) -> dict:
    """timecode: messages carry TimeCodeMessageHeader; threaded: DataCollection(use_thread=...);
    pre: configuration pre-history run before the first start() - a list of ["add", pool index] | ["rm", slot];
    None = add every entry of the pool `datasets` in order."""
    d = dict(DEFAULT_OPTS)
    d.update(o or {})
    return d


def _trace(datasets, history, tape, opts=None):
    tr = {"datasets": datasets, "history": [list(h) for h in history] + [["stop"]], "tape": list(tape)}
    o = _opts(opts)
    if o != DEFAULT_OPTS:
        tr["opts"] = o
    return tr


def _exc_key(e: BaseException) -> str:
    tb = traceback.extract_tb(e.__traceback__)
    fn = "?"
    for fr in reversed(tb):
        if "/pyrtma/" in fr.filename.replace("\\", "/"):
            fn = fr.name
            break
    return f"exception/{type(e).__name__}/{fn}"


def _writer_pattern(log, wtid, ev_disk, ev_fin):
    """(#completed writer cycles, per-cycle (preempted before write_to_disk.clear(), preempted before
    write_finished.set())) from the effect log; the two operations may come in either order."""
    cycles = []
    cur = None
    last_w = None  # index in log of the writer's previous operation
    for i, (tid, kind, name, res) in enumerate(log):
        if tid != wtid:
            continue
        between = last_w is not None and any(log[j][0] != wtid for j in range(last_w + 1, i))
        if kind == "wait" and name == ev_disk and res:
            cur = [None, None]
        elif kind == "clear" and name == ev_disk and cur is not None:
            cur[0] = between
        elif kind == "set" and name == ev_fin and cur is not None:
            cur[1] = between
        if cur is not None and cur[0] is not None and cur[1] is not None:
            cycles.append(tuple(cur))
            cur = None
        last_w = i
    return len(cycles), tuple(cycles)


def _files_in_order(ddir: str, base: str, ext: str):
    out = []
    if not os.path.isdir(ddir):
        return out
    for fn in os.listdir(ddir):
        if not fn.endswith(ext):
            continue
        stem = fn[: -len(ext)]
        if stem == base:
            out.append((0, fn))
        elif stem.startswith(base + "_") and stem[len(base) + 1:].isdigit():
            out.append((int(stem[len(base) + 1:]), fn))
    out.sort()
    return [os.path.join(ddir, fn) for _i, fn in out]


class _Corrupt(Exception):
    pass


def _read_raw(path, hdr_cls=MessageHeader):
    HDR_SIZE = hdr_cls().size  # noqa: N806
    b = open(path, "rb").read()
    pos, frames = 0, []
    while pos < len(b):
        if pos + HDR_SIZE > len(b):
            raise _Corrupt(f"{os.path.basename(path)}: {len(b) - pos} trailing bytes are not a whole header")
        h = hdr_cls.from_buffer_copy(b[pos: pos + HDR_SIZE])
        n = h.num_data_bytes
        if n < 0 or pos + HDR_SIZE + n > len(b):
            raise _Corrupt(f"{os.path.basename(path)}: frame at byte {pos} announces {n} data bytes, file has "
                           f"{len(b) - pos - HDR_SIZE} left")
        frames.append((h.msg_count, b[pos: pos + HDR_SIZE + n]))
        pos += HDR_SIZE + n
    return frames


def _read_json(path):
    with open(path, "rt") as f:
        text = f.read()
    frames = []
    for ln, line in enumerate(text.splitlines()):
        try:
            m = Message.from_json(line)
        except Exception as e:  # noqa
            raise _Corrupt(f"{os.path.basename(path)} line {ln + 1} is not decodable by Message.from_json: "
                           f"{type(e).__name__}: {str(e)[:120]}")
        frames.append((m.header.msg_count, frame(m)))
    return frames


def _read_ql(path, defs_path, hdr_cls=MessageHeader):
    HDR_SIZE = hdr_cls().size  # noqa: N806
    r = QLReader()
    before = list(sys.path)
    try:
        try:
            r.load(path, defs_path, skip_unknown=False)
        finally:
            sys.path[:] = before
            sys.modules.pop(os.path.splitext(os.path.basename(defs_path))[0], None)
    except Exception as e:  # noqa
        raise _Corrupt(f"QLReader.load({os.path.basename(path)}) failed: {type(e).__name__}: {str(e)[:160]}")
    fh = r.file_header
    size = os.path.getsize(path)
    n = len(r.messages)
    if not (len(r.headers) == len(r.data) == n == fh.num_messages):
        raise _Corrupt(f"{os.path.basename(path)}: reader returned {len(r.headers)} headers/{len(r.data)} payloads, "
                       f"file header says {fh.num_messages}")
    nbytes = sum(h.num_data_bytes for h in r.headers)
    want_total = QLFileHeader().size + n * (fh.message_header_size + fh.data_block_offset_size) + nbytes
    # (an empty file keeps the default header size: no message has fixed the layout yet)
    if (n and fh.message_header_size != HDR_SIZE) or fh.num_data_bytes != nbytes or fh.total_bytes != want_total \
            or size != want_total:
        raise _Corrupt(
            f"{os.path.basename(path)}: inconsistent quicklogger file header {fh.to_dict()} for {n} messages with "
            f"{nbytes} payload bytes, file size {size}")
    ofs = 0
    for i, h in enumerate(r.headers):
        if r.offsets[i] != ofs:
            raise _Corrupt(f"{os.path.basename(path)}: offset[{i}]={r.offsets[i]}, payloads before it take {ofs}")
        ofs += h.num_data_bytes
    return [(h.msg_count, bytes(h) + bytes(d)) for h, d in zip(r.headers, r.data)]


def run_case(datasets, history, tape, want_log=False, sleep_sets=False, max_after=None, opts=None) -> CaseInfo:
    """Execute one case; pure function of its arguments.  Raises Violation when C17 does not hold on it.

    datasets: pool of data-set descriptions [{"fmt": raw|json|quicklogger, "types": see _selection(),
              "subdiv": 0 | seconds, "slot": name slot (optional, see _slot())}]; which of them are configured when
              is decided by the configuration operations (opts["pre"] before the first start(), the third element
              of a restart between two recordings): ["add", pool index] = add_data_set(new DataSet of that
              description), ["rm", slot] = rm_data_set("ds<slot>").  The collection is only re-configured while it
              is stopped (the DataLogger refuses ADD_DATA_SET / REMOVE_DATA_SET while recording).
    history:  [["u", type index | -1 (= update(None)), dt] | ["p"] | ["r"] | ["t"] (= trigger_write()) |
              ["restart", dt, [configuration operations] (optional)]]; stop() is always
              appended; restart = stop(), metadata update, re-configuration, start() of the next recording of the
              same collection
    tape:     schedule tape (see vlib/sched.py)
    opts:     see _opts()
    """
    info = CaseInfo()
    opts = _opts(opts)
    timecode = bool(opts["timecode"])
    hdr_cls = TimeCodeMessageHeader if timecode else MessageHeader
    tmp = tempfile.mkdtemp(prefix="c17-", dir="/tmp")
    sched = Scheduler(tape, sleep_sets=sleep_sets, max_after_switches=max_after)
    clock = VirtualClock(sched)
    saved = (dc_mod.threading, dc_mod.time)
    coll = None
    dsets = []
    pending = None  # Violation to raise after clean-up
    try:
        dc_mod.threading = ThreadingShim(sched)
        dc_mod.time = clock
        md = LoggingMetadata()
        sel = [_selection(d["types"]) for d in datasets]
        # the harness's own picture of the configuration: [(slot, pool index)] of the data sets that exist now
        live = []
        # per recording (a restart begins a new one): the data sets that exist while it runs and, per data set, the
        # ids that must be in the files, in order / the ids whose presence is not judged
        runs = []
        frames = {}

        def configure(ops, between):
            for cop in ops:
                if cop[0] == "add":
                    k = cop[1]
                    d = datasets[k]
                    slot = _slot(datasets, k)
                    ds = DataSet(
                        collection_name="c17", name=f"ds{slot}", sub_dir_fmt=f"ds{k}", file_name_fmt=f"f{k}r$(run)",
                        formatter_cls=get_formatter(d["fmt"]), subdivide_interval=int(d["subdiv"]),
                        msg_types=list(sel[k][2]), metadata=md,
                    )
                    dsets.append(ds)
                    coll.add_data_set(ds)
                    if any(s == slot for s, _k in live):
                        live[:] = [e for e in live if e[0] != slot]
                        info.cfg.add("config-add-of-existing-name(update)")
                        info.cfg.add("config-list-rebound")
                    live.append((slot, k))
                elif cop[0] == "rm":
                    slot = cop[1]
                    coll.rm_data_set(f"ds{slot}")
                    info.cfg.add("config-rm_data_set" if any(s == slot for s, _k in live)
                                 else "config-rm_data_set-of-unknown-name")
                    info.cfg.add("config-list-rebound")
                    live[:] = [e for e in live if e[0] != slot]
                else:
                    raise HarnessError(f"unknown configuration op {cop!r}")
                if between:
                    info.cfg.add("config-change-between-recordings")

        def begin_run():
            runs.append({"insts": list(live), "exp": [[] for _ in live], "dc": [set() for _ in live]})
            info.fmts = tuple(sorted(set(info.fmts) | {datasets[k]["fmt"] for _s, k in live}))
            info.has_sub = info.has_sub or any(datasets[k]["subdiv"] for _s, k in live)
            for _s, k in live:
                a, idx, mts, pad = sel[k]
                if a and idx:
                    info.cfg.add("selection-ALL-mixed-with-explicit-types")
                if len([m for m in mts if m > 0]) != len(idx) + (1 if a else 0):
                    info.cfg.add("selection-with-repeated-type")
                if pad:
                    info.cfg.add("selection-with-padding-zeros")
        defs_path = os.path.join(tmp, "c17_qldefs.py")

        def check_run(run_no, when, final):
            """The oracle on the files of one recording, as they are on disk now.  -> Violation | None"""
            run = runs[run_no]
            for j, (slot, i) in enumerate(run["insts"]):
                d = datasets[i]
                fmt = d["fmt"]
                ext = get_formatter(fmt).ext
                files = _files_in_order(os.path.join(tmp, "rec", f"ds{i}"), f"f{i}r{run_no}", ext)
                if final:
                    info.n_sub_files += max(0, len(files) - 1)
                    info.n_expected += len(run["exp"][j])
                tag = (f"data set ds{slot} (description {i} of {len(datasets)}: {fmt}, msg_types {d['types']}), one of "
                       f"{len(run['insts'])} configured, recording {run_no}, files read {when}")
                if not files:
                    return Violation(f"corrupt/{fmt}", f"{tag}: no output file", None)
                got = []
                try:
                    for p in files:
                        if fmt == "quicklogger":
                            if not os.path.exists(defs_path):
                                open(defs_path, "w").close()
                            got.extend(_read_ql(p, defs_path, hdr_cls))
                        else:
                            got.extend(_read_raw(p, hdr_cls) if fmt == "raw" else _read_json(p))
                except _Corrupt as c:
                    return Violation(f"corrupt/{fmt}" + ("/timecode-header" if timecode else ""), f"{tag}: {c}"
                                     + ("; the messages carry TimeCodeMessageHeader" if timecode else ""), None)
                v = _compare(tag, fmt, got, run["exp"][j], run["dc"][j], frames, len(files),
                             _dropped_stage(sched.log), info.triggers_while_pending > 0)
                if v is not None:
                    if timecode and v.key.startswith("corrupt/"):
                        v.key += "/timecode-header"
                        v.what += "; the messages carry TimeCodeMessageHeader"
                    return v
            return None

        early = None  # violation seen on the files right after a stop()
        where = "setup"
        try:
            md.update(json.dumps({"run": 0}))
            if opts["threaded"]:
                coll = DataCollection("c17", tmp, "rec", md)
            else:
                coll = DataCollection("c17", tmp, "rec", md, use_thread=False)
            coll.write_to_disk.name = "write_to_disk"
            coll.write_finished.name = "write_finished"
            where = "configuration"
            pre = opts["pre"]
            configure([["add", k] for k in range(len(datasets))] if pre is None else pre, False)
            where = "start"
            sched.progress()
            begin_run()
            coll.start()
            paused = False
            mid = 0
            for op in history:
                sched.progress()
                if op[0] == "u":
                    _u, ti, dt = op
                    clock.advance(dt)
                    msg = None
                    if ti >= 0:
                        mid += 1
                        msg = make_msg(mid, ti, timecode)
                        frames[mid] = frame(msg)
                        n_sel = n_expl = 0
                        for j, (_s, k) in enumerate(runs[-1]["insts"]):
                            a, idx, _m, pad = sel[k]
                            if a or ti in idx:
                                (runs[-1]["dc"][j].add(mid) if paused else runs[-1]["exp"][j].append(mid))
                                n_sel += 1
                                n_expl += ti in idx
                            elif pad and TYPES[ti].type_id == 0:
                                # 0 in msg_types is padding, not a selection of type 0: nothing is asserted
                                runs[-1]["dc"][j].add(mid)
                        if n_sel > 1:
                            info.cfg.add("message-selected-by-several-data-sets")
                        if n_expl > 1:
                            info.cfg.add("message-type-named-by-several-data-sets")
                        if paused:
                            info.paused_msgs += 1
                    where = "update"
                    coll.update(msg)
                elif op[0] == "p":
                    where = "pause"
                    coll.pause()
                    paused = True
                elif op[0] == "r":
                    where = "resume"
                    coll.resume()
                    paused = False
                elif op[0] == "t":
                    # the recording thread asks for a flush itself (public method, no deadline involved)
                    where = "trigger_write"
                    if coll.write_to_disk._flag:  # peek at the shim, not an operation: names the bucket only
                        info.triggers_while_pending += 1
                    coll.trigger_write()
                    info.direct_triggers += 1
                elif op[0] == "restart":
                    # stop this recording, new metadata (as DATA_LOGGER_METADATA_UPDATE does), start the next one
                    where = "stop"
                    coll.stop()
                    # "after stop the files are complete": observed now, before start()/close()/gc can flush anything
                    early = check_run(len(runs) - 1, "right after stop()", False)
                    if early is not None:
                        break
                    sched.progress()
                    md.update(json.dumps({"run": len(runs)}))
                    clock.advance(op[1] if len(op) > 1 else 0)
                    if len(op) > 2 and op[2]:
                        where = "configuration"
                        configure(op[2], True)
                    where = "start"
                    begin_run()
                    coll.start()
                    paused = False
                    info.restarts += 1
                else:
                    raise HarnessError(f"unknown history op {op!r}")
            if early is None:
                where = "stop"
                sched.progress()
                coll.stop()
                early = check_run(len(runs) - 1, "right after stop()", False)
            if early is None:
                where = "close"
                sched.progress()
                coll.close()
        except Deadlock as e:
            pending = Violation("deadlock" + ("/trigger-write-while-write-pending" if info.triggers_while_pending else ""),
                                f"{e.kind} during {where}(): {e.what}"
                                + ("; trigger_write() had been called while the previous write request was still pending"
                                   if info.triggers_while_pending else ""), None)
        except HarnessError:
            raise
        except Exception as e:  # noqa: anything escaping from the public API while recording
            werr = sched.thread_errors()
            if werr:
                w = werr[0]
                pending = Violation(f"exception/{type(w.exc).__name__}/{_exc_key(w.exc).rsplit('/', 1)[1]}",
                                    f"writer thread died: {type(w.exc).__name__}: {w.exc}; then {where}() raised "
                                    f"{type(e).__name__}: {e}", None)
            else:
                pending = Violation(_exc_key(e), f"{where}() raised {type(e).__name__}: {e}", None)
        if pending is None:
            werr = sched.thread_errors()
            if werr:
                w = werr[0]
                pending = Violation(_exc_key(w.exc), f"writer thread died: {type(w.exc).__name__}: {w.exc}", None)

        # ---- bookkeeping about the schedule (before any clean-up scheduling)
        info.choices = list(sched.choices)
        info.pruned = sched.pruned
        info.tape = sched.normalised_tape()
        wt = getattr(getattr(coll, "write_thread", None), "_t", None) if coll is not None else None
        if wt is not None:
            info.cycles, info.preempt = _writer_pattern(sched.log, wt.tid, "write_to_disk", "write_finished")
        info.timeouts = sum(1 for e in sched.log if e[1] == "timeout")
        if want_log:
            info.log = [list(map(str, e)) for e in sched.log]

        # ---- second observation point: every recording once more, after close()
        if pending is None:
            pending = early
        if pending is None:
            for run_no in range(len(runs)):
                pending = check_run(run_no, "after close()", True)
                if pending is not None:
                    break
    finally:
        # ---- clean-up: no thread may survive the case, no handle, no directory
        try:
            if coll is not None:
                coll._close = True
                coll._dead = True
            sched.finish()
            for ds in dsets:
                try:
                    ds.close()
                    tmpf = getattr(getattr(ds, "formatter", None), "data_tmp", None)
                    if tmpf is not None:
                        tmpf.close()
                except Exception:  # noqa
                    pass
            wth = getattr(coll, "write_thread", None) if coll is not None else None
            if wth is not None and hasattr(wth, "forget"):
                wth.forget()
        finally:
            dc_mod.threading, dc_mod.time = saved
            shutil.rmtree(tmp, ignore_errors=True)
    if pending is not None:
        pending.trace = _trace(datasets, history, info.tape, opts)
        pending.choices = info.choices
        raise pending
    return info


def _dropped_stage(log) -> bool:
    """Was a write request (write_to_disk set by the recording thread) ever erased - cleared by either thread -
    before the writer picked it up?  Used only to name the root-cause bucket of a loss, never to decide whether
    there is one."""
    requested = False
    for tid, kind, name, res in log:
        if name != "write_to_disk":
            continue
        if tid == 0 and kind == "set":
            requested = True
        elif tid != 0 and kind == "wait" and res:
            requested = False
        elif kind == "clear" and requested:
            return True
    return False


def _compare(tag, fmt, got, exp, dontcare, frames, nfiles, dropped_stage, restaged=False):
    """got: [(id, frame bytes)] read back; exp: ids that must be there in this order."""
    for mid, fb in got:
        if mid not in frames or frames[mid] != fb:
            return Violation(f"corrupt/{fmt}", f"{tag}: a record with msg_count={mid} was read back whose "
                             f"header/payload bytes equal no message handed over", None)
    ids = [mid for mid, _ in got if mid not in dontcare]
    expset = set(exp)
    spurious = [m for m in ids if m not in expset]
    if spurious:
        return Violation(f"spurious/{fmt}", f"{tag}: messages {spurious[:6]} are in the output but were not handed "
                         f"over to this recording with a type the data set selects", None)
    seen = {}
    for m in ids:
        seen[m] = seen.get(m, 0) + 1
    lost = [m for m in exp if m not in seen]
    dup = [m for m in exp if seen.get(m, 0) > 1]
    if lost:
        key = ("lost/trigger-write-while-write-pending" if restaged else
               "lost/staged-buffer-never-written" if dropped_stage else f"lost/{fmt}")
        return Violation(key, f"{tag}, {nfiles} file(s): {len(lost)} of {len(exp)} selected messages handed over while "
                         f"recording and not paused are not in the output: ids {lost[:8]}; read back {ids[:12]}"
                         + ("; trigger_write() was called (and staged a new buffer) while the previous write request was "
                            "still pending"
                            if restaged else
                            "; a write request was cleared before the writer thread had served it (stop() did not "
                            "wait for the writer's cycle)" if dropped_stage else ""), None)
    if dup:
        return Violation(f"duplicate/{fmt}", f"{tag}: messages {dup[:6]} were written more than once; read "
                         f"back {ids[:16]}", None)
    if ids != exp:
        return Violation(f"reordered/{fmt}", f"{tag}: arrival order {exp[:12]}, file order {ids[:12]}", None)
    return None


# ------------------------------------------------------------------------------------------ generator


def types_strategy():
    """msg_types of one data set (see _selection): ALL alone, a set of explicit types, ALL_MESSAGE_TYPES next to
    explicit types (at a drawn position), a list that names a type more than once, a list padded with zeros as
    the fixed-length array of ADD_DATA_SET delivers it."""
    def mk(t):
        kind, xs, pos = t
        if kind <= 2:
            return "ALL"
        if kind <= 5:
            return sorted(set(xs))[:3]
        if kind <= 7:
            ys = list(xs[:3])
            ys.insert(pos % (len(ys) + 1), "ALL")
            return ys
        if kind == 8:
            return list(xs) + [xs[pos % len(xs)]]
        return (["ALL"] if pos % 3 == 0 else sorted(set(xs))[:3]) + ["PAD", "PAD"]

    return st.tuples(st.integers(0, 9), st.lists(st.integers(0, N_SUBSET_TYPES - 1), min_size=1, max_size=4),
                     st.integers(0, 5)).map(mk)


def datasets_strategy():
    one = st.fixed_dictionaries({
        "fmt": st.sampled_from(FORMATTERS),
        "types": types_strategy(),
        "subdiv": st.sampled_from((0, 0, SUBDIV)),
        # mostly a name of its own; sometimes the name of another entry (adding both = update of the first)
        "slot": st.integers(0, 11).map(lambda x: x if x < 2 else None),
    })
    # sizes drawn explicitly: mostly 2-3 data sets (each formatter also in a non-last position), rarely none
    sizes = st.sampled_from((3, 2, 3, 2, 1, 2, 3, 4, 0))
    return sizes.flatmap(lambda n: st.lists(one, min_size=n, max_size=n))


def _raw_cfg_ops(max_size):
    """Configuration operations before their pool indices are known: (kind, a) -> see _cfg_ops."""
    return st.lists(st.tuples(st.integers(0, 5), st.integers(0, 3)), max_size=max_size)


def _cfg_ops(raw, n_pool):
    """kind < 4: add pool entry a (mod pool size); else rm_data_set of name slot a (which may name nothing)."""
    out = []
    for kind, a in raw:
        if kind < 4:
            if n_pool:
                out.append(["add", a % n_pool])
        else:
            out.append(["rm", a])
    return out


def _live_after(datasets, ops, live=()):
    """Generator-side bookkeeping of names: pool indices configured after `ops` (names are unique)."""
    live = list(live)
    for op in ops:
        slot = _slot(datasets, op[1]) if op[0] == "add" else op[1]
        live = [k for k in live if _slot(datasets, k) != slot]
        if op[0] == "add":
            live.append(op[1])
    return live


def _pre_history(datasets, mode, raw_a, raw_b):
    """Configuration pre-history.  mode 0: None (= every pool entry added once, in order).  Otherwise: drawn
    operations, then every pool entry that is not configured at that point is added (in pool order, so most
    entries take part in the recording), then up to two more drawn operations."""
    if mode == 0:
        return None
    n = len(datasets)
    a = _cfg_ops(raw_a, n)
    live = _live_after(datasets, a)
    mid = [["add", k] for k in range(n) if k not in live]
    return a + mid + _cfg_ops(raw_b[:2], n)


def _normalise_case(t):
    datasets, raw_history, tape, opts, (mode, raw_a, raw_b) = t
    n = len(datasets)
    history = []
    for op in raw_history:
        if op[0] == "restart":
            cfg = _cfg_ops(op[2], n)
            op = ["restart", op[1]] + ([cfg] if cfg else [])
        history.append(op)
    opts = dict(opts)
    opts["pre"] = _pre_history(datasets, mode, raw_a, raw_b)
    return datasets, history, tape, opts


def _op_strategy(dts, weights=(9, 1, 1, 1, 1)):
    """One history operation; the kind is one weighted integer draw (one_of would merge identical branches).
    A restart carries raw configuration operations (mostly none), resolved by _normalise_case."""
    wu, wp, wr, ws, wt = weights
    total = wu + wp + wr + ws + wt

    def mk(t):
        k, ti, dt, (with_cfg, cfg) = t
        if k < wu:
            return ["u", ti, dt]
        if k < wu + wp:
            return ["p"]
        if k < wu + wp + wr:
            return ["r"]
        if k < wu + wp + wr + ws:
            return ["restart", dt, cfg if with_cfg else []]
        return ["t"]

    return st.tuples(st.integers(0, total - 1), st.integers(-1, len(TYPES) - 1), st.sampled_from(dts),
                     st.tuples(st.integers(0, 2).map(lambda x: x == 2), _raw_cfg_ops(2))).map(mk)


def history_strategy(max_len):
    op = _op_strategy(DTS[2:] + DTS)
    # lengths are drawn explicitly (Hypothesis would make a quarter of plain lists empty): zero-length and
    # single-flush runs stay in, but most histories are long enough for several writer cycles
    # (Hypothesis over-samples the first element of sampled_from, so the long end comes first)
    lengths = st.sampled_from(tuple(range(max_len, -1, -1)) + tuple(range(max_len // 2, max_len + 1)))
    return lengths.flatmap(lambda n: st.lists(op, min_size=n, max_size=n))


def tape_strategy(max_tape):
    # fixed length (the trace keeps only the choices actually taken); per case dense, sparse or no preemption
    def mk(t):
        mode, xs = t
        if mode == 0:
            return []
        thr = 3 if mode <= 3 else 1
        return [1 if x < thr else 0 for x in xs]

    return st.tuples(st.integers(0, 5), st.lists(st.integers(0, 4), min_size=max_tape, max_size=max_tape)).map(mk)


def opts_strategy():
    return st.integers(0, 11).map(lambda k: {"timecode": k % 3 == 2, "threaded": k < 9})


def pre_strategy():
    # (mode, operations before / after the point where every unconfigured pool entry is added)
    return st.tuples(st.integers(0, 2), _raw_cfg_ops(4), _raw_cfg_ops(2))


def case_strategy(max_len, max_tape):
    return st.tuples(datasets_strategy(), history_strategy(max_len), tape_strategy(max_tape), opts_strategy(),
                     pre_strategy()).map(_normalise_case)


def small_case_strategy():
    """Small histories whose whole schedule tree is enumerated: two updates that cross a flush (or subdivision)
    deadline, with up to 2 + 1 other operations between and after them."""
    fupd = st.tuples(st.just("u"), st.integers(0, len(TYPES) - 1), st.sampled_from(DTS[2:])).map(list)
    op = _op_strategy((0, 1), (5, 1, 1, 1, 1))
    one = st.fixed_dictionaries({
        "fmt": st.sampled_from(FORMATTERS),
        "types": st.sampled_from(("ALL", [1, 2], ["ALL", 1], [2, 1, 2], [2, "ALL", 2, "PAD"])),
        "subdiv": st.sampled_from((0, SUBDIV)),
        "slot": st.sampled_from((None, None, 0)),
    })
    hist = st.tuples(fupd, st.lists(op, max_size=2), fupd, st.lists(op, max_size=1)).map(
        lambda t: [t[0]] + t[1] + [t[2]] + t[3])

    def norm(t):
        datasets, history, tape, opts = _normalise_case((t[0], t[1], [], t[2], t[3]))
        return datasets, history, opts

    return st.tuples(st.lists(one, min_size=1, max_size=2), hist,
                     st.integers(0, 3).map(lambda k: {"timecode": k == 3, "threaded": True}),
                     st.tuples(st.integers(0, 1), _raw_cfg_ops(2), _raw_cfg_ops(1))).map(norm)


def _account(res: Result, datasets, history, info: CaseInfo, tag="", opts=None):
    o = _opts(opts)
    if o["timecode"]:
        res.count(f"{tag}with-timecode-headers")
    if not o["threaded"]:
        res.count(f"{tag}unthreaded(use_thread=False)")
    if info.direct_triggers:
        res.count(f"{tag}with-direct-trigger_write")
    fmts = tuple(info.fmts)
    for c in sorted(info.cfg):
        res.count(f"{tag}with-{c}")
    if o["pre"] is not None:
        res.count(f"{tag}with-generated-configuration-pre-history")
    has_pause = any(op[0] == "p" for op in history)
    if info.restarts:
        res.count(f"{tag}with-restart")
    has_sub = info.has_sub
    n_upd = sum(1 for op in history if op[0] == "u")
    preempted = any(a or b for a, b in info.preempt)
    for f in fmts:
        res.count(f"{tag}formatter-{f}")
    res.count(f"{tag}cases")
    if has_pause:
        res.count(f"{tag}with-pause")
    if info.paused_msgs:
        res.count(f"{tag}with-message-while-paused")
    if has_sub:
        res.count(f"{tag}with-subdivision-configured")
    if info.n_sub_files:
        res.count(f"{tag}with-subdivided-output")
    res.count(f"{tag}writer-cycles-{min(info.cycles, 4)}{'+' if info.cycles >= 4 else ''}")
    if info.n_expected == 0:
        res.count(f"{tag}zero-message-runs")
    if n_upd == 0:
        res.count(f"{tag}empty-history")
    if info.cycles == 0:
        res.count(f"{tag}single-flush-runs(all-written-by-stop)")
    if preempted:
        res.count(f"{tag}schedules-with-writer-preemption")
    if info.timeouts > 1:
        res.count(f"{tag}stop-had-to-wait-for-writer")
    if info.cycles >= 2 and preempted:
        res.count(f"{tag}nontrivial")
        res.shape(fmts, min(info.cycles, 5), info.preempt[:5], has_pause, has_sub, min(info.n_sub_files, 3),
                  min(info.timeouts, 3), min(info.restarts, 2), o["timecode"], min(info.direct_triggers, 2),
                  "config-list-rebound" in info.cfg, "selection-ALL-mixed-with-explicit-types" in info.cfg)
        return True
    return False


# fixed tiny histories whose schedule trees are enumerated completely in both tiers
_ALL3 = [{"fmt": "raw", "types": "ALL", "subdiv": 0}, {"fmt": "json", "types": "ALL", "subdiv": 0},
         {"fmt": "quicklogger", "types": "ALL", "subdiv": 0}]
_RAW = [{"fmt": "raw", "types": "ALL", "subdiv": 0}]
FIXED_DFS = [
    (_ALL3, [["u", 1, 16], ["u", 2, 16]]),
    (_RAW, [["u", 1, 16], ["u", 2, 0], ["u", 3, 16]]),
    ([{"fmt": "quicklogger", "types": "ALL", "subdiv": 30}], [["u", 1, 31], ["u", 2, 31], ["u", 3, 1]]),
    ([{"fmt": "raw", "types": [1, 2], "subdiv": 30}, {"fmt": "json", "types": "ALL", "subdiv": 0}],
     [["u", 1, 16], ["p"], ["u", 2, 1], ["r"], ["u", 2, 16]]),
    ([{"fmt": "json", "types": "ALL", "subdiv": 0}], [["u", 1, 16], ["u", -1, 16], ["u", 2, 1]]),
    (_RAW, [["u", 0, 16]]),
    (_RAW, []),
    ([], [["u", 1, 16]]),
    (list(reversed(_ALL3)), [["u", 1, 16], ["u", 2, 1]]),
    (_RAW, [["u", 1, 16], ["restart", 0], ["u", 2, 16]]),
    ([{"fmt": "quicklogger", "types": "ALL", "subdiv": 0}], [["u", 1, 16], ["u", 2, 16], ["restart", 0], ["u", 3, 1]]),
    # the recording thread calls trigger_write() itself, also while the previous request is still pending
    (_RAW, [["u", 1, 0], ["t"], ["u", 2, 0], ["t"], ["u", 3, 0]]),
    (_ALL3, [["u", 1, 16], ["u", 2, 0], ["t"], ["u", 3, 1]], {"timecode": True}),
    (_ALL3, [["u", 1, 16], ["u", 2, 16], ["t"], ["u", 3, 1]], {"threaded": False}),
    # a data set re-configured under its name before recording (the data-set list is re-bound), selections that
    # mix ALL_MESSAGE_TYPES with explicit types / repeat a type / are padded with zeros, one type named by two data sets
    ([{"fmt": "raw", "types": [3], "subdiv": 0}, {"fmt": "raw", "types": [2, "ALL", 2], "subdiv": 0, "slot": 0},
      {"fmt": "json", "types": [2, 2, 1, "PAD"], "subdiv": 0}],
     [["u", 1, 16], ["u", 2, 16]]),
    # rm_data_set of an unknown and of a configured name before the first recording, remove + re-add between recordings
    (_ALL3, [["u", 1, 16], ["restart", 0, [["rm", 1], ["add", 0]]], ["u", 2, 16]],
     {"pre": [["add", 0], ["rm", 3], ["add", 1], ["rm", 0], ["add", 2]]}),
]
FIXED_DFS = [(e[0], e[1], e[2] if len(e) > 2 else None) for e in FIXED_DFS]


def dfs_history(res: Result, datasets, history, limit, tag="dfs-", max_after=1, opts=None):
    """Enumerate every schedule of one history.  Violations are collected per key; returns (#schedules, complete)."""
    nt = [0]

    def one(prefix):
        try:
            info = run_case(datasets, history, prefix, sleep_sets=True, max_after=max_after, opts=opts)
        except Violation as v:
            res.add_finding(v.key, v.what + " [found by exhaustive schedule enumeration]", v.trace)
            res.evaluations += 1
            return v.choices
        res.evaluations += 1
        if info.pruned:
            res.count("dfs-schedules-equivalent-to-earlier(sleep-set)")
        if _account(res, datasets, history, info, tag, opts):
            nt[0] += 1
        return info.choices

    n, complete = enumerate_schedules(one, limit)
    res.count("dfs-schedules", n)
    res.count(("dfs-histories-complete" if complete else "dfs-histories-truncated") + f"(after-preemptions<={max_after})")
    res.count("dfs-histories-complete" if complete else "dfs-histories-truncated")
    return n, complete


def small_histories(max_updates=4):
    """Every history of <= max_updates updates (message of one of two types, or None; dt in {0, 16}) with
    <= 2 flush deadlines crossed, optionally with one pause/resume pair around one update."""
    import itertools

    outs = []
    for n in range(0, max_updates + 1):
        for dts in itertools.product((0, 16), repeat=n):
            if sum(1 for d in dts if d) > 2:
                continue
            for nones in itertools.product((False, True), repeat=n):
                if sum(nones) > 1:
                    continue
                h = [["u", -1 if nones[k] else 1 + (k % 2), dts[k]] for k in range(n)]
                outs.append(h)
                for k in range(n):
                    hp = h[:k] + [["p"]] + h[k:k + 1] + [["r"]] + h[k + 1:]
                    outs.append(hp)
    return outs


def shard(seed: int, n_examples: int, max_len: int, max_tape: int, dfs_slice, n_dfs_random: int, dfs_limit: int) -> Result:
    res = Result()

    def body(v):
        datasets, history, tape, opts = v
        info = run_case(datasets, history, tape, opts=opts)
        if _account(res, datasets, history, info, "", opts) and len(res.samples) < 2:
            res.sample(_trace(datasets, history, info.tape, opts))

    hyp_run(body, case_strategy(max_len, max_tape), seed, n_examples, res, collect=True)

    # exhaustive schedule enumeration: the fixed slice, then Hypothesis-drawn small histories
    for datasets, history, opts, limit, max_after in dfs_slice:
        dfs_history(res, datasets, history, limit, max_after=max_after, opts=opts)

    def body_dfs(v):
        datasets, history, opts = v
        res.evaluations -= 1  # hyp_run counts the history; dfs_history counts its schedules
        dfs_history(res, datasets, history, dfs_limit, max_after=1, opts=opts)

    if n_dfs_random:
        hyp_run(body_dfs, small_case_strategy(), seed ^ 0x5EED, n_dfs_random, res, collect=True)
    return res


def run(ctx: RunContext) -> int:
    t0 = _real_time.time()
    n = ctx.scale(300, 8000)
    max_len = 14 if ctx.quick else 24
    max_tape = 96 if ctx.quick else 192
    limit = 3000 if ctx.quick else 6000
    # (data sets, history, cap on #schedules, bound on preemptions taken at after-points)
    work = [(d, h, o, limit, 1) for d, h, o in FIXED_DFS]
    if not ctx.quick:
        work += [(d, h, o, limit, 2) for d, h, o in FIXED_DFS]
        for sub in (0, SUBDIV):
            cfg = [{"fmt": f, "types": "ALL", "subdiv": sub} for f in FORMATTERS]
            for h in small_histories(4):
                work.append((cfg, h, None, limit, 0))
            for h in small_histories(3 if sub == 0 else 2):
                work.append((cfg, h, None, limit, 1))
        work.sort(key=lambda w: -(len(w[1]) * (1 + 8 * w[4])))  # expensive trees first, so the shards end together
    slices = [work[i::16] for i in range(16)]
    n_dfs = ctx.scale(1, 4)
    res = run_shards(shard, [(derive_seed(ctx.seed, i), n, max_len, max_tape, slices[i], n_dfs, 1000 if ctx.quick else 3000)
                             for i in range(16)])
    if res.counters.get("dfs-histories-truncated"):
        res.notes.append(f"some schedule trees were cut at their cap ({limit} schedules): the exhaustive sub-domain is the "
                         "set of histories counted in dfs-histories-complete")
    res.notes.append("exhaustive sub-domain: all schedules (synchronisation-operation granularity, with the stated bound "
                     "on preemptions taken immediately after an operation) of the histories counted in "
                     "dfs-histories-complete")
    return conclude(ctx, res, RULE, ASSUME, t0)


def replay_trace(trace: dict) -> None:
    """Re-execute one concrete case without Hypothesis; raises Violation if C17 still fails on it."""
    history = [h for h in trace["history"] if h[0] != "stop"]
    run_case(trace["datasets"], history, trace["tape"], opts=trace.get("opts"))


def replay(ctx: RunContext, body: dict) -> int:
    """Older entry point (run.py now calls replay_trace and prints the verdict itself)."""
    try:
        replay_trace(body["trace"])
    except Violation as v:
        print(f"VIOLATION property={PROP} replay={ctx.replay}\n  key={v.key}\n  what={v.what}")
        return 1
    print("replay: property held")
    return 0
