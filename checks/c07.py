"""C07 - a departed client leaves no trace."""
import dataclasses

from vlib.proto import MT_CLIENT_CLOSED as P_CLIENT_CLOSED, MT_CLIENT_INFO as P_CLIENT_INFO

from vlib.mgen import CLOSE, CONNECT, DISCONNECT, FAULT, OPEN, PUB, READY, SETNAME, STEP, SUB, Profile
from vlib.monitors import monitor_setup
from vlib.simcheck import SimCheck

RULE = ("Hypothesis-generated histories (profile 'departure'): two monitors (one plain, one logger; subscribed to CLIENT_CLOSED/"
        "CLIENT_INFO/FAILED_MESSAGE, always writable, never leaving) plus up to 6 modules in every protocol stage (accepted only, "
        "connected, subscribed individually / to all / to manager message types, paused, logger) that leave by DISCONNECT, FIN, RST, "
        "FIN/RST after k bytes of a frame, refusal at connect, or are discovered on the write side (peer gone: EPIPE / ECONNRESET / "
        "first write succeeds; or an injected failure after k bytes of an outgoing frame), several in one round in generated "
        "service order, with survivors publishing in the same round and immediate reconnects reusing ids and names (profile "
        "'departure-clash': connects that clash with the id or name of a live unique or allow-multiple module, i.e. departures by "
        "refusal next to an innocent holder). Oracles after "
        "every round: each monitor received exactly one CLIENT_CLOSED per departed connection (matched by port) describing its "
        "id/name/flags; the manager closed the departed socket and only that; reconnects that the identity rules allow are accepted; "
        "deliveries among survivors equal the routing model (including the message during which the failure surfaced); no "
        "FAILED_MESSAGE is invented. Non-trivial = departure of a module holding >=1 subscription followed by >=1 publish of that "
        "type; distinct = (how it left, stage, #departures in the round, write-side?).")

DEPARTURE = Profile(
    name="departure",
    oracles={"closed", "routing", "framing", "failed", "identity"},
    weights={STEP: 10, PUB: 10, SUB: 7, CONNECT: 6, OPEN: 3, DISCONNECT: 3, CLOSE: 6, FAULT: 2, READY: 1, SETNAME: 1},
    types=[1234, 5000, 33, 8, 32, 0, 9999, 42, 10000],
    sizes=[0, 8, 64, 1, 7, 4096],
    close_modes=["silent", "epipe", "reset", "first-ok"],
    partial_close=True,
    dts=[0.0],
    p_logger=4,
    clash_ids=False,
    static_ids=[10, 11, 12, 13],
    max_conns=8,
    setup_ops=monitor_setup(),
    protected=(0, 1),
)


# departures by refusal: connects that clash with the id or name of a live module (unique or allow-multiple holders)
# (id 100 is left out: the manager accepts it as an explicit id and also hands it out dynamically, and which of two requests of
# one round came first is not modelled; peers are never "already gone", so that a refusal is the only reason for a removal)
DEPARTURE_CLASH = dataclasses.replace(DEPARTURE, name="departure-clash", clash_ids=True, clash_extra=(101, 199, 200, -1, 32767),
                                      close_modes=["silent"],
                                      weights={STEP: 10, PUB: 8, SUB: 6, CONNECT: 10, OPEN: 6, DISCONNECT: 3, CLOSE: 4, READY: 1, SETNAME: 1})


# departures discovered while the periodic reports (CLIENT_INFO / ACTIVE_CLIENTS burst, TIMING, TRAFFIC) are being sent: the
# clock advances, victims subscribe to the manager's own messages and are already gone when the manager writes to them.
# Only the oracles that need no prediction of manager-originated traffic are on: run() still executing, every connection
# watched or closed, whole frames, no CLIENT_INFO for a connection after its CLIENT_CLOSED.
DEPARTURE_PERIODIC = dataclasses.replace(
    DEPARTURE, name="departure-periodic", oracles=set(),
    weights={STEP: 12, PUB: 4, SUB: 10, CONNECT: 6, OPEN: 3, DISCONNECT: 1, CLOSE: 8, READY: 1},
    types=[P_CLIENT_INFO, 1234, P_CLIENT_CLOSED, 8, P_CLIENT_INFO],
    close_modes=["epipe", "reset", "first-ok", "silent"], partial_close=False,
    dts=[0.0, 0.0, 6.0, 0.0, 2.0, 6.0, 0.5],
)


def nontrivial(w, res):
    for s in w.shapes:
        if s[0] == "departure":
            res.shape(*s)


# ---- exhaustive departure table ---------------------------------------------------------------------------
T = 1234
STAGES = ["accepted", "connected", "sub-type", "sub-all", "paused", "logger-sub", "sub-closed-notices"]


def _stage_ops(c, mid, stage):
    if stage == "accepted":
        return []
    ops = [{"op": "connect", "c": c, "ver": "v2v1", "id": mid, "logger": 1 if stage == "logger-sub" else 0, "daemon": 0,
            "multi": 0, "name": f"victim{mid}", "pid": 70 + c}]
    if stage in ("sub-type", "paused", "logger-sub"):
        ops.append({"op": "sub", "c": c, "kind": "SUBSCRIBE", "type": T})
    if stage == "paused":
        ops.append({"op": "sub", "c": c, "kind": "PAUSE", "type": T})
    if stage == "sub-all":
        ops.append({"op": "sub", "c": c, "kind": "SUBSCRIBE", "type": 0x7FFFFFFF})
    if stage == "sub-closed-notices":
        ops += [{"op": "sub", "c": c, "kind": "SUBSCRIBE", "type": 33}, {"op": "sub", "c": c, "kind": "SUBSCRIBE", "type": T}]
    return ops


def _ways(stage, hs):
    ways = [("fin", {}), ("rst", {})]
    for k in (1, hs - 1, hs, hs + 1, hs + 12):
        ways += [("fin", {"partial": k}), ("rst", {"partial": k})]
    if stage != "accepted":
        ways.append(("disconnect", {}))
        for g in ("epipe", "reset", "first-ok"):
            ways += [("fin", {"gone": g}), ("rst", {"gone": g})]
    if stage == "sub-type":
        for k in (0, 1, hs - 1, hs, hs + 1, hs + 7, hs + 8):
            ways.append(("fault", {"after": k}))
    return ways


def _leave_ops(c, way, arg):
    if way == "disconnect":
        return [{"op": "disconnect", "c": c}]
    if way == "fault":
        return [{"op": "fault", "c": c, "after": arg["after"], "exc": "epipe" if arg["after"] % 2 else "reset"}]
    op = {"op": "close", "c": c, "how": way, "gone": arg.get("gone", "silent")}
    if arg.get("partial"):
        op["partial"] = arg["partial"]
    return [op]


def table_cases(tc):
    hs = 56 if tc else 48
    for stage in STAGES:
        for way, arg in _ways(stage, hs):
            seconds = [None] + [(s2, w2, a2) for s2 in ("sub-type", "sub-closed-notices", "logger-sub")
                                for (w2, a2) in (("fin", {}), ("fin", {"gone": "epipe"}), ("rst", {"gone": "reset"}))]
            for second in seconds:
                for order in (("pub", "A", "B"), ("A", "B", "pub"), ("B", "pub", "A")):
                    if second is None and order[0] == "B":
                        continue
                    yield stage, way, arg, second, order


def table_script(tc, stage, way, arg, second, order):
    from vlib.monitors import monitor_setup

    ops = list(monitor_setup()) + [{"op": "_drain"}]
    # conn 2 = victim A (id 10), conn 3 = victim B (id 11), conn 4 = publisher (id 12), conn 5 = survivor (id 13)
    ops += [{"op": "open"}, {"op": "open"}, {"op": "open"}, {"op": "open"}, {"op": "_drain"}]
    ops += _stage_ops(2, 10, stage)
    if second:
        ops += _stage_ops(3, 11, second[0])
    ops += [{"op": "connect", "c": 4, "ver": "v2v1", "id": 12, "logger": 0, "daemon": 0, "multi": 0, "name": "pub", "pid": 4},
            {"op": "connect", "c": 5, "ver": "v1", "id": 13, "logger": 0, "daemon": 0, "multi": 0, "name": "", "pid": 5},
            {"op": "_drain"}, {"op": "sub", "c": 5, "kind": "SUBSCRIBE", "type": T}, {"op": "_drain"}]
    ops += _leave_ops(2, way, arg)
    if second:
        ops += _leave_ops(3, second[1], second[2])
    ops.append({"op": "pub", "c": 4, "type": T, "dm": 0, "dh": 0, "size": 8, "src": 12})
    ready = []
    for who in order:
        c = {"pub": 4, "A": 2, "B": 3}[who]
        if who == "B" and not second:
            continue
        if who == "A" and way == "fault":
            continue  # nothing to read from a live victim
        ready.append(c)
    ops.append({"op": "step", "ready": ready, "writable": [0, 1, 2, 3, 4, 5], "dt": 0.0})
    ops.append({"op": "_drain"})
    # the id and name of victim A are reusable at once
    if stage != "accepted":
        ops += [{"op": "open"}, {"op": "connect", "c": 6, "ver": "v2v1", "id": 10, "logger": 0, "daemon": 0, "multi": 0,
                                 "name": "victim10", "pid": 99}, {"op": "_drain"},
                {"op": "sub", "c": 6, "kind": "SUBSCRIBE", "type": T}, {"op": "_drain"}]
    ops += [{"op": "pub", "c": 4, "type": T, "dm": 0, "dh": 0, "size": 0, "src": 12}, {"op": "_drain"}]
    return ops


def shard_table(idx, nshards):
    from vlib.common import Result, Violation
    from vlib.script import run_script

    res = Result()
    n = 0
    i = 0
    for tc in (False, True):
        cfg = {"timecode": tc, "timing": True, "log": "silent"}
        for case in table_cases(tc):
            i += 1
            if i % nshards != idx:
                continue
            ops = table_script(tc, *case)
            try:
                run_script(cfg, ops, DEPARTURE.oracles, "C07", res, harvest=lambda w, r: None)
            except Violation as v:
                res.add_finding(v.key, v.what, {"kind": "script", "cfg": cfg, "ops": ops})
            stage, way, arg, second, order = case
            res.shape("table", stage, way, tuple(sorted(arg.items())), second[0] if second else None, order[0])
            n += 1
    res.evaluations += n
    res.count("departure-table-cases", n)
    return res


def st_pool():
    from hypothesis import strategies as st

    prefill = st.lists(st.one_of(st.just(("c",)), st.tuples(st.just("l"), st.integers(0, 9))), max_size=12)
    cycle = st.tuples(st.sampled_from([0, 0, 0, 1, 2, 3, 4, 5, 6, 50, 99]), st.integers(0, 2), st.sampled_from([0, 0, 1, 2]))
    return st.tuples(st.booleans(), prefill, st.integers(0, 3), st.lists(cycle, min_size=1, max_size=8))


def shard_pool(seed, n):
    """The id of a departed client is reusable at once, also when it is the only free dynamic id."""
    from vlib.common import Result, Violation, hyp_run
    from vlib.script import pool_cycle_ops, run_script

    res = Result()

    def body(v):
        tc, prefill, refusals, cycles = v
        cfg = {"timecode": tc, "timing": True, "log": "silent"}
        ops, must = pool_cycle_ops(monitor_setup(), 2, prefill, refusals, cycles)
        try:
            run_script(cfg, ops, DEPARTURE.oracles, "C07", res, harvest=lambda w, r: None)
        except Violation as e:
            raise Violation(e.key, e.what, {"kind": "script", "cfg": cfg, "ops": ops})
        res.count("full-pool-histories")
        res.count("full-pool-departure-and-reuse", len(cycles))
        for pick, way, extra_ref in cycles:
            res.shape("pool", min(pick, 7), way, extra_ref, min(refusals, 2))

    hyp_run(body, st_pool(), seed, n, res)
    return res


# ---- a holder that is found dead WHILE a newcomer asks for its id or name -------------------------------------------------
def stale_holder_case(tc, level, sub, gone, how, newcomer, res=None):
    """conn 0 = observer of CLIENT_CLOSED / CLIENT_INFO; conn 1 = holder of id 12 / name 'held' (unique), subscribed to `sub`
    (the manager's log types or everything); conn 2 = bystander; conn 3 = newcomer asking for the holder's id and/or name.
    The holder's peer is gone (writes to it fail) but nothing has told the manager yet; only the newcomer is served.  If a
    log line written while the newcomer's request is checked fails on the holder, the holder is removed and reported closed
    in the middle of that check.  Observation only: once the observer has been told that the holder is closed, a request for
    its id / name that is decided AFTER that notice must not be refused because of it."""
    import logging

    from vlib import proto as P
    from vlib.common import Violation
    from vlib.simnet import LISTENER, Sim

    lv = {"debug": logging.DEBUG, "info": logging.INFO, "error": logging.ERROR}[level]
    trace = {"kind": "stale-holder", "tc": tc, "level": level, "sub": sub, "gone": gone, "how": how, "newcomer": newcomer}
    sim = Sim(timecode=tc, send_msg_timing=False, log_level=lv)
    try:
        def pump():
            for _ in range(200):
                ready = ([LISTENER] if sim.listener.backlog else []) + [c for c in sim.conns if sim.readable(c)]
                if not ready:
                    return
                sim.step(ready, [c for c in sim.conns], 0.0)
                if sim.dead:
                    raise Violation("manager-died/" + type(sim.dead_exc).__name__, sim.dead.strip().splitlines()[-1], trace)

        def connect(mid, name, multi=0):
            c = sim.open()
            c.send(P.build(P.MT_CONNECT_V2, P.CONNECT_V2.pack(0, 0, multi, mid, 1, P.cstr(name)), src_mod=mid, timecode=tc))
            return c

        obs = connect(90, b"observer")
        for t in (P.MT_CLIENT_CLOSED, P.MT_CLIENT_INFO, 42):  # 42 = RTMA_LOG_ERROR: the refusal is announced by an error record
            obs.send(P.build(P.MT_SUBSCRIBE, P.SUBSCRIBE.pack(t), src_mod=90, timecode=tc))
        holder = connect(12, b"held")
        for t in sub:
            holder.send(P.build(P.MT_SUBSCRIBE, P.SUBSCRIBE.pack(t), src_mod=12, timecode=tc))
        by = connect(13, b"")
        pump()
        for c in (obs, holder, by):
            c.take()
        # the holder's peer goes away; the manager has not been told (its socket is not served in the next round)
        holder.m.peer_gone_mode = gone
        if how == "rst":
            holder.c.abort()
        else:
            holder.c.rx.clear()
            holder.c.close()
        rid, rname = {"same-id": (12, b"fresh"), "same-name": (14, b"held"), "same-id-and-name": (12, b"held")}[newcomer]
        new = sim.open()
        sim.step([LISTENER], list(sim.conns), 0.0)
        new.send(P.build(P.MT_CONNECT_V2, P.CONNECT_V2.pack(0, 0, 0, rid, 1, P.cstr(rname)), src_mod=rid, timecode=tc))
        sim.step([new], list(sim.conns), 0.0)
        if sim.dead:
            raise Violation("manager-died/" + type(sim.dead_exc).__name__, sim.dead.strip().splitlines()[-1], trace)
        new_frames = P.parse_stream(bytearray(new.take()), tc)
        acked = any(f.msg_type == P.MT_ACKNOWLEDGE and f.src_mod_id == 0 for f in new_frames)
        refused = new.manager_closed and not acked
        stream = [f for f in P.parse_stream(bytearray(obs.take()), tc) if f.src_mod_id == 0]
        hp, np_ = holder.c.addr[1], new.c.addr[1]
        pos_holder_closed = pos_new_closed = pos_error = None
        for k, f in enumerate(stream):
            if f.msg_type == P.MT_CLIENT_CLOSED:
                port = P.parse_client_info(f.payload)["port"]
                if port == hp and pos_holder_closed is None:
                    pos_holder_closed = k
                if port == np_ and pos_new_closed is None:
                    pos_new_closed = k
            elif f.msg_type == 42 and pos_error is None:
                pos_error = k
        if res is not None:
            res.evaluations += 1
            res.count("stale-holder-cases")
            if pos_holder_closed is not None:
                res.count("stale-holder-cases-holder-found-dead-during-the-request")
            res.shape("stale-holder", level, tuple(sub), gone, newcomer, pos_holder_closed is not None, refused)
        # the refusal is announced by an error record BEFORE the newcomer is removed.  If that record itself is what fails on
        # the holder, the holder is reported closed after it (the verdict was taken while the holder was believed alive: fine).
        # A holder reported closed BEFORE the refusal is announced was known to be gone when the verdict was taken.
        if refused and pos_holder_closed is not None and pos_error is not None and pos_holder_closed < pos_error:
            raise Violation("reuse/refused-because-of-a-module-already-reported-closed",
                            f"log level {level}: the holder of id 12 / name 'held' (peer gone, subscribed to {sub}) was reported CLIENT_CLOSED "
                            f"while the request of a newcomer ({newcomer}) was being checked, and only then the newcomer was refused "
                            f"(error record and its CLIENT_CLOSED follow) - observers see the holder leave and its id/name still refused", trace)
        pump()
    finally:
        sim.close()


def stale_holder_cases():
    import itertools

    from vlib import proto as P

    subs = ([45], [44, 45], [P.ALL_MESSAGE_TYPES], [P.MT_CLIENT_INFO])
    return list(itertools.product((False, True), ("debug", "info", "error"), subs, ("epipe", "reset", "first-ok"), ("fin", "rst"),
                                  ("same-id", "same-name", "same-id-and-name")))


def shard_stale(idx, nshards):
    from vlib.common import Result, Violation

    res = Result()
    for i, case in enumerate(stale_holder_cases()):
        if i % nshards != idx:
            continue
        try:
            stale_holder_case(*case, res=res)
        except Violation as v:
            res.add_finding(v.key, v.what, v.trace)
    return res


def shard_extra(kind, *a):
    return {"table": shard_table, "pool": shard_pool, "stale": shard_stale}[kind](*a)


def extra(ctx):
    from vlib.common import derive_seed, run_shards

    n = ctx.scale(3, 40)
    res = run_shards(shard_extra, [("table", i, 16) for i in range(16)] + [("pool", derive_seed(ctx.seed, 700 + i), n) for i in range(16)]
                     + [("stale", i, 8) for i in range(8)])
    res.notes.append("full dynamic-id pool: all 100 dynamic ids assigned (after generated connects/departures that move the rotating "
                     "start), 0-3 requests against the full pool, then generated cycles in which the k-th most recently assigned "
                     "holder leaves (DISCONNECT/FIN/RST) and a new request for a dynamic id must be accepted at once")
    res.notes.append("table of 432 cases: a holder of an id / name whose peer is gone is found dead (a log line about the request fails on it) "
                     "while a newcomer's request for that id / name is being checked, log levels debug/info/error x what the holder subscribes "
                     "to x how its writes fail x what the newcomer asks for; observation only: a holder reported closed before the verdict "
                     "cannot be the reason of a refusal")
    res.notes.append("sub-domain enumerated completely: 7 protocol stages x every way of leaving (DISCONNECT, FIN/RST clean, after 5 "
                     "byte offsets of a frame, discovered on write with EPIPE/ECONNRESET/delayed failure, injected failure at 7 byte "
                     "offsets of the outgoing frame) x (alone | with a second departing module of 3 stages x 3 ways) x 3 service "
                     "orders of (publisher, victim, second victim) x both header layouts, each followed by an immediate reconnect "
                     "with the same id and name")
    return res


def _replay_extra(tr):
    from vlib.script import run_script

    if tr.get("kind") == "stale-holder":
        return stale_holder_case(tr["tc"], tr["level"], tr["sub"], tr["gone"], tr["how"], tr["newcomer"])
    run_script(tr["cfg"], tr["ops"], DEPARTURE.oracles, "C07")


_SILENT = [{"timecode": False, "timing": True, "log": "silent"}, {"timecode": True, "timing": False, "log": "silent"}]
CHECK = SimCheck(
    "C07", [DEPARTURE, DEPARTURE, DEPARTURE_CLASH, DEPARTURE_PERIODIC],
    {"departure": _SILENT, "departure-clash": _SILENT,
     "departure-periodic": _SILENT + [{"timecode": False, "timing": True, "log": "debug"}, {"timecode": True, "timing": True, "log": "info"}]},
    RULE, ["profile 'departure-periodic' only uses oracles that need no prediction of manager-originated traffic (run() alive, "
           "every connection watched or closed, whole frames, no CLIENT_INFO for a connection after its CLIENT_CLOSED) while the "
           "clock advances, the manager logs at debug/info level and victims subscribe to the manager's own messages",
           "in the other profiles logging is silenced and the clock does not advance, so that every manager-originated frame "
           "(ACK, CLIENT_INFO, CLIENT_CLOSED, FAILED_MESSAGE) is predicted by the model and the first failing write to a dead "
           "peer is known exactly",
           "what CLIENT_CLOSED says about a connection refused at connect is not specified; only its port is matched",
           "whether the manager's socket for a connection is closed is read from the simulated kernel"],
    quick=(800, 60), thorough=(20000, 150), nontrivial=nontrivial, min_clients=3, extra=extra,
)
CHECK.replay_extra = _replay_extra
run, replay_trace, shard = CHECK.run, CHECK.replay_trace, CHECK.shard
