"""C07 - a departed client leaves no trace."""
from vlib.mgen import CLOSE, CONNECT, DISCONNECT, FAULT, OPEN, PUB, READY, SETNAME, STEP, SUB, Profile
from vlib.monitors import monitor_setup
from vlib.simcheck import SimCheck

RULE = ("Hypothesis-generated histories (profile 'departure'): two monitors (one plain, one logger; subscribed to CLIENT_CLOSED/"
        "CLIENT_INFO/FAILED_MESSAGE, always writable, never leaving) plus up to 6 modules in every protocol stage (accepted only, "
        "connected, subscribed individually / to all / to manager message types, paused, logger) that leave by DISCONNECT, FIN, RST, "
        "FIN/RST after k bytes of a frame, refusal at connect, or are discovered on the write side (peer gone: EPIPE / ECONNRESET / "
        "first write succeeds; or an injected failure after k bytes of an outgoing frame), several in one round in generated "
        "service order, with survivors publishing in the same round and immediate reconnects reusing ids and names. Oracles after "
        "every round: each monitor received exactly one CLIENT_CLOSED per departed connection (matched by port) describing its "
        "id/name/flags; the manager closed the departed socket and only that; reconnects that the identity rules allow are accepted; "
        "deliveries among survivors equal the routing model (including the message during which the failure surfaced); no "
        "FAILED_MESSAGE is invented. Non-trivial = departure of a module holding >=1 subscription followed by >=1 publish of that "
        "type; distinct = (how it left, stage, #departures in the round, write-side?).")

DEPARTURE = Profile(
    name="departure",
    oracles={"closed", "routing", "framing", "failed", "identity"},
    weights={STEP: 10, PUB: 10, SUB: 7, CONNECT: 6, OPEN: 3, DISCONNECT: 3, CLOSE: 6, FAULT: 2, READY: 1, SETNAME: 1},
    types=[1234, 5000, 33, 8, 32, 0, 9999, 42, 10000],
    sizes=[0, 8, 64, 1, 7, 4096],
    close_modes=["silent", "epipe", "reset", "first-ok"],
    partial_close=True,
    dts=[0.0],
    p_logger=4,
    clash_ids=False,
    static_ids=[10, 11, 12, 13],
    max_conns=8,
    setup_ops=monitor_setup(),
    protected=(0, 1),
)


def nontrivial(w, res):
    for s in w.shapes:
        if s[0] == "departure":
            res.shape(*s)


CHECK = SimCheck(
    "C07", [DEPARTURE],
    [{"timecode": False, "timing": True, "log": "silent"}, {"timecode": True, "timing": False, "log": "silent"}],
    RULE, ["logging is silenced and the clock does not advance in this profile, so that every manager-originated frame "
           "(ACK, CLIENT_INFO, CLIENT_CLOSED, FAILED_MESSAGE) is predicted by the model and the first failing write to a dead "
           "peer is known exactly",
           "what CLIENT_CLOSED says about a connection refused at connect is not specified; only its port is matched",
           "whether the manager's socket for a connection is closed is read from the simulated kernel"],
    quick=(800, 60), thorough=(20000, 150), nontrivial=nontrivial, min_clients=3,
)
run, replay_trace, shard = CHECK.run, CHECK.replay_trace, CHECK.shard
