"""C09 - field validation is sound, complete and atomic (Engine C, in-process message PBT)."""
from __future__ import annotations

import array
import ctypes
import functools
import math
import time

from hypothesis import strategies as st

import pyrtma.validators as V
from pyrtma.message_base import MessageBase

from vlib import msgs
from vlib.common import HarnessError, Result, RunContext, Violation, conclude, derive_seed, hyp_run, run_shards
from vlib.msgs import FI, dec, enc

RULE = (
    "Hypothesis draws, per validator family (int, byte, float, char, string, int-array, float-array, byte-array, "
    "struct, struct-array: one independent campaign each), a class (56 core MDFs + 5 core structs, a hand-written family "
    "with every validator kind at several widths/lengths, or a class built from a drawn field list with nested structs "
    "and struct arrays), a field reached by a random walk through nested structs/struct-array elements, an assignment "
    "form (scalar set, whole-array set from list/tuple/bytes/range/ctypes array or array.array of any integer or float element "
    "type/another "
    "message's array, element, slice with drawn "
    "start/stop/step; element and slice stores go through a fresh attribute access or through a bound view object obtained "
    "earlier: outside any block, outside with a disable block entered and left in between, inside a disable block since left "
    "normally / by ValueError / by a BaseException, or bound outside and used inside a real block) ; in a third of the whole-array/slice stores the SAME mutable sequence object (list, bytearray, ctypes array, array.array) "
    "is first stored with valid content - into this or another instance - then mutated in place into the drawn content and "
    "stored again, the second store being judged) and a value from boundary sets, the full range, wrong Python types, wrong lengths, or a valid "
    "sequence with ONE bad element substituted at a drawn position (neighbours may be NaN/bool/extremes); 1-3 "
    "assignments per message, each checked against a domain model (accepted => in-domain, read-back equal, bytes "
    "outside the field untouched; raised => all bytes unchanged; out-of-domain => raised). An 11th campaign draws "
    "forests of nested disable_message_validation(ignore) blocks left normally, by an ordinary exception (ValueError, KeyError, "
    "StopIteration), by a BaseException (KeyboardInterrupt, SystemExit, GeneratorExit, asyncio.CancelledError, a custom "
    "BaseException subclass) or entered in a generator that is suspended inside the block and then closed / dropped, and probes with an "
    "invalid assignment inside every block and after every exit. Two more campaigns draw op sequences (start / resume / close / "
    "caller probe) over 1-2 generators or hand-driven coroutines that suspend INSIDE their own disable block: the caller, which is "
    "in no block, probes while they are suspended ('suspended') or only once none is inside a real block ('interleaved'). Non-trivial = an out-of-domain element at a "
    "non-first position of a sequence, or out-of-domain content in a reused, mutated sequence object, or an out-of-domain store "
    "through a view bound inside a since-left disable block, or an "
    "accepted boundary value, or a disable forest with a block left by "
    "exception; distinct = (kind, element type, form, cause, position class, neighbour class, length class) / "
    "(kind, type, form, boundary classes) / forest signature."
)
ASSUME = [
    "don't-cares (never asserted either way): bool for int/float/byte fields, NaN for float fields, '' and bytes for Char, "
    "bytes for String, bytes objects as elements of a sequence for ByteArray, Fraction/Decimal for float fields (not generated), "
    "NaN held by a c_float/c_double scalar, empty slices, the exception type (any exception counts as refused)",
    "scalar ctypes instances are judged on the Python value they hold: an instance of the field's own ctype (the __set__ "
    "signatures list it) is in-domain unless it holds +-inf (float fields) or a byte >= 0x80 (Char), which must be refused "
    "like the plain Python value; an instance of any other ctypes type (wider, narrower, other kind) or one used as an element "
    "of a sequence must be refused when the held value is outside the domain and is a don't-care otherwise (if accepted it "
    "must read back as the held value)",
    "ctypes arrays (listed by the __set__ signatures as accepted values) of any of the 8 integer element types, and c_float/"
    "c_double, are judged element-wise on the Python values they hold: in-domain iff every element is in the field's domain and "
    "the length matches",
    "in-domain canonical values (ints in range, finite representable floats/ints, ASCII strings of length <= n-1, one ASCII "
    "char, byte 0..255 or 1-byte bytes, equal-length list/tuple/bytes/range of such, exact struct class instances, a bound "
    "array of identical element type and length) must be ACCEPTED: this is what tests/test_validators.py::test_validator_range "
    "documents and without it a validator refusing everything would pass; reported under separate keys */in-domain-refused",
    "float32 domain = struct.pack('<f', v) does not raise OverflowError; read-back compared bit-exactly after that round trip "
    "(NaN reads back as any NaN)",
    "strings are compared up to the first NUL; stale bytes behind the NUL inside the field are allowed",
    "a store executed INSIDE a real disable block through a view bound outside it: no document decides whether it is validated, "
    "and the property only speaks about validation being on: such stores are executed but not judged",
    "in the forest campaign nothing is probed in the caller while a generator is suspended inside a block (that is the subject "
    "of the separate 'suspended' campaign, whose finding on the unchanged code is a known open one); after close() / garbage "
    "collection / normal completion validation must be in force again",
    "a caller that is lexically and dynamically outside every disable block is 'not inside an explicit disable block' even while "
    "a generator or coroutine it drives is suspended inside one (asyncio Tasks run in their own context and are not affected)",
    "disable-block probes use assignments that ctypes itself accepts silently (int8=200, byte=256, float32[]=[0,1e39,..], "
    "struct=()), so 'raised' can only come from the validators",
]

GROUPS = {
    "int": frozenset(["int"]),
    "byte": frozenset(["byte"]),
    "float": frozenset(["float"]),
    "char": frozenset(["char"]),
    "string": frozenset(["str"]),
    "int-array": frozenset(["iarr"]),
    "float-array": frozenset(["farr"]),
    "byte-array": frozenset(["bytes"]),
    "struct": frozenset(["struct"]),
    "struct-array": frozenset(["sarr"]),
}
ARRAY_KINDS = ("iarr", "farr", "bytes", "sarr")
_BOUND = (V.ArrayField, V.StructArray)

# ------------------------------------------------------------------------------------------------
# executor + oracle (used by the Hypothesis wrapper and by replay)


def _reset_validation():
    """Clean state between cases, whatever an earlier case (or a defect) left behind."""
    V._VALIDATION_ENABLED.set(True)
    depth = getattr(V, "_DISABLE_DEPTH", None)  # a nesting counter, should the code under test keep one
    if depth is not None:
        depth.set(0)


VIEW_ORIGINS = ["outside", "outside-then-block", "inside-normal", "inside-exc", "inside-base", "used-inside"]


class _Leave(BaseException):
    pass


def _bind_view(cobj, name: str, origin: str):
    """Obtain the bound array view `cobj.<name>` somewhere else than at the store itself."""
    if origin in ("outside", "used-inside"):
        return getattr(cobj, name)
    if origin == "outside-then-block":
        view = getattr(cobj, name)
        with V.disable_message_validation():
            pass
        return view
    if origin == "inside-normal":
        with V.disable_message_validation():
            view = getattr(cobj, name)
        return view
    marker = ValueError("verif") if origin == "inside-exc" else _Leave()
    view = None
    try:
        with V.disable_message_validation():
            view = getattr(cobj, name)
            raise marker
    except BaseException as e:
        if e is not marker:
            raise
    return view


def _targets(fi: FI, form: str, k):
    if form == "set":
        return list(range(fi.n))
    if form == "item":
        if not (-fi.n <= k < fi.n):
            raise HarnessError(f"index {k} out of range for {fi}")
        return [k % fi.n]
    return list(range(*slice(*k).indices(fi.n)))


def _is_nan(v) -> bool:
    return isinstance(v, float) and math.isnan(v)


def _boundary_classes(fi: FI, v, exp) -> set:
    out = set()
    k = fi.kind
    if k in ("int", "iarr", "byte", "bytes"):
        code = fi.code if k in ("int", "iarr") else "byte"
        lo, hi = msgs.INT_RANGE[code]
        if isinstance(exp, int):
            if exp == lo:
                out.add("min")
            if exp == hi:
                out.add("max")
    elif k in ("float", "farr"):
        if isinstance(exp, float):
            top = msgs.FLT_MAX if fi.code == "f32" else msgs.DBL_MAX
            if abs(exp) == top:
                out.add("fmax" if exp > 0 else "fmin")
                if isinstance(v, float) and abs(v) != top:
                    out.add("rounds-to-max")
            if exp == 0.0 and math.copysign(1.0, exp) < 0:
                out.add("negzero")
            if exp != 0.0 and abs(exp) < (1.2e-38 if fi.code == "f32" else 2.3e-308):
                out.add("denormal")
            if isinstance(v, int) and not isinstance(v, bool) and abs(v) > 2 ** 53:
                out.add("bigint")
    elif k == "str":
        if isinstance(v, str):
            if len(v) == fi.n - 1:
                out.add("maxlen")
            if "\0" in v:
                out.add("nul")
    elif k == "char":
        if v in ("\0", "\x7f"):
            out.add("edge-char")
    return out


def judge(fi: FI, form: str, k, value, before_model):
    """-> dict(verdict, cause, expected, pos, n_targets, has_nan, has_bool, bnd)"""
    j = {"verdict": "dc", "cause": "", "expected": None, "pos": None, "nt": 1, "has_nan": False, "has_bool": False,
         "bnd": set(), "neigh": "plain", "vform": "py"}
    if fi.kind not in ARRAY_KINDS:
        if form != "set":
            raise HarnessError(f"form {form} on scalar field")
        v, c, e = msgs.classify_elem(fi, value, False)
        j.update(verdict=v, cause=c, expected=e)
        if v == "in":
            j["bnd"] = _boundary_classes(fi, value, e)
        return j
    tg = _targets(fi, form, k)
    j["nt"] = len(tg)
    if form == "item":
        v, c, e = msgs.classify_elem(fi, value, False)
        j.update(verdict=v, cause=c)
        if v != "out" and e is not None:
            m = list(before_model)
            m[tg[0]] = e
            j["expected"] = m
        if v == "in":
            j["bnd"] = _boundary_classes(fi, value, e)
        return j
    # whole array or slice
    if isinstance(value, _BOUND) and form == "set":
        same_cls = type(value) is type(fi.desc)
        if fi.kind == "sarr":
            same_el = same_cls and value._validator._ctype is fi.scls
        else:
            same_el = same_cls and type(value._validator) is type(fi.desc._validator)
        if not same_el:
            j.update(verdict="out", cause="wrong-array-type")
        elif len(value) != fi.n:
            j.update(verdict="out", cause="wrong-length")
        else:
            if fi.kind == "bytes":
                exp = list(bytes(value[:]))
            elif fi.kind == "sarr":
                exp = [bytes(x) for x in value[:]]
            else:
                exp = list(value[:])
            j.update(verdict="in", expected=exp)
        return j
    if isinstance(value, (list, tuple, bytes, bytearray, range, str, ctypes.Array, array.array) + _BOUND):
        elems = list(value)  # a ctypes array / array.array is judged on the Python values it holds
        if isinstance(value, ctypes.Array):
            j["vform"] = "ctypes:" + msgs.CT_CODE.get(value._type_, "?")
        elif isinstance(value, array.array):
            j["vform"] = "array.array:" + value.typecode
    else:
        j.update(verdict="out", cause="not-a-sequence")
        return j
    cls_ = [msgs.classify_elem(fi, x, True) for x in elems]
    j["has_nan"] = any(_is_nan(x) for x in elems)
    j["has_bool"] = any(isinstance(x, bool) for x in elems)
    bad = [i for i, c in enumerate(cls_) if c[0] == "out"]
    if len(elems) != len(tg):
        j.update(verdict="out", cause="wrong-length")
        return j
    if bad:
        j.update(verdict="out", cause=cls_[bad[0]][1], pos=bad[0])
        others = [x for i, x in enumerate(elems) if i != bad[0]]
        if any(_is_nan(x) for x in others):
            j["neigh"] = "nan"
        elif any(isinstance(x, bool) for x in others):
            j["neigh"] = "bool"
        elif any(_boundary_classes(fi, x, c[2]) for x, c in zip(elems, cls_) if c[0] == "in"):
            j["neigh"] = "extreme"
        return j
    if not tg:
        j.update(verdict="dc", cause="empty")
        return j
    if any(c[0] == "dc" for c in cls_):
        j.update(verdict="dc", cause=next(c[1] for c in cls_ if c[0] == "dc"))
    elif fi.kind == "bytes" and isinstance(value, (bytes, bytearray)) and len(value) == 1:
        # ByteArray reads a 1-byte bytes object as ONE element, so `arr[0:1] = b"x"` is refused (observed, harmless:
        # refusing is allowed by the property); acceptance is only demanded for the documented canonical forms
        j.update(verdict="dc", cause="one-byte-bytes-as-sequence")
    else:
        j.update(verdict="in")
    if all(c[2] is not None for c in cls_):
        m = list(before_model)
        for t, c in zip(tg, cls_):
            m[t] = c[2]
        j["expected"] = m
    if j["verdict"] == "in":
        for x, c in zip(elems, cls_):
            j["bnd"] |= _boundary_classes(fi, x, c[2])
    return j


def _model_equal(fi: FI, got, want) -> bool:
    if fi.kind in ARRAY_KINDS:
        return len(got) == len(want) and all(msgs.elem_equal(fi, g, w) for g, w in zip(got, want))
    return msgs.elem_equal(fi, got, want)


def _formclass(fi: FI, form: str) -> str:
    if fi.kind in ARRAY_KINDS:
        return "item" if form == "item" else "seq"
    return "set"


def _lenclass(n: int) -> str:
    return "1" if n == 1 else "2" if n == 2 else "3-8" if n <= 8 else ">8"


def _posclass(pos: int, n: int) -> str:
    return "first" if pos == 0 else "last" if pos == n - 1 else "middle"


def do_step(root: MessageBase, step: dict, group: str, res: Result, trace: dict):
    cobj, ccls, base = msgs.walk(root, step["p"])
    fi = msgs.field(ccls, step["f"])
    form, k = step["form"], step.get("k")
    value = dec(step["v"])
    re_ = step.get("re")
    if re_ is not None:
        # the SAME sequence object is stored twice with an in-place mutation in between; the second store is judged
        obj = dec(re_["first"])
        if type(obj) is not type(value) or not isinstance(obj, (list, bytearray, ctypes.Array, array.array)):
            raise HarnessError(f"reused object: {type(obj).__name__} vs {type(value).__name__}")
        tgt = cobj
        if re_.get("other"):  # first store into ANOTHER instance of the class
            tgt, _c2, _b2 = msgs.walk(type(root)(), step["p"])
        key0 = k if form == "item" else slice(*k) if form == "slice" else None
        try:
            if form == "set":
                setattr(tgt, fi.name, obj)
            else:
                getattr(tgt, fi.name)[key0] = obj
            res.count(f"{group}:reused-object:first-store:accepted")
        except HarnessError:
            raise
        except Exception:
            res.count(f"{group}:reused-object:first-store:refused")
        if isinstance(obj, list):
            obj[:] = list(value)
        elif isinstance(obj, bytearray):
            obj[:] = bytes(value)
        elif isinstance(obj, array.array):
            if obj.typecode != value.typecode:
                raise HarnessError("reused array.array: typecode differs")
            obj[:] = value
        else:
            if obj._type_ is not value._type_ or len(obj) != len(value):
                raise HarnessError("reused ctypes array: type/length differs")
            for i_, e_ in enumerate(value):
                obj[i_] = e_
        value = obj
    before = bytes(root)
    before_model = read = None
    try:
        before_model = msgs.read_field(cobj, fi)
    except Exception as e:  # state polluted by an earlier (already reported) acceptance; cannot happen on step 1
        raise HarnessError(f"cannot read field before assignment: {e!r}")
    j = judge(fi, form, k, value, before_model)
    fc = _formclass(fi, form)
    desc = (f"{ccls.__name__}.{fi.name} ({fi.tag}) form={form}" + (f" key={k}" if k is not None else "")
            + f" value={msgs.show(value)}")
    raised = None
    origin = step.get("view") if form != "set" else None
    if origin is not None and origin not in VIEW_ORIGINS:
        raise HarnessError(f"unknown view origin {origin}")
    key_ = k if form == "item" else slice(*k) if form == "slice" else None
    try:
        if form == "set":
            setattr(cobj, fi.name, value)
        elif origin is None:
            getattr(cobj, fi.name)[key_] = value  # fresh attribute access
        else:
            view = _bind_view(cobj, fi.name, origin)  # bound view object obtained earlier / elsewhere
            if origin == "used-inside":
                with V.disable_message_validation():
                    view[key_] = value
            else:
                view[key_] = value
    except HarnessError:
        raise
    except Exception as e:  # any exception type counts as "refused"
        raised = e
    finally:
        if origin is not None:
            _reset_validation()
    after = bytes(root)
    cs_ = isinstance(value, ctypes._SimpleCData)
    if cs_:
        fc = fc + "@ctypes-scalar"
    if re_ is not None:
        fc = fc + "@reused-mutated-object"
        desc += " (the same object was stored before with valid content" + (" into another instance" if re_.get("other") else "") + " and mutated in place)"
    if origin is not None:
        res.count(f"{group}:view:{origin}:{j['verdict']}:{'refused' if raised is not None else 'accepted'}")
        fc = fc + ("@view-bound-inside-left-block" if origin.startswith("inside") else "@view-bound-outside")
        desc += f" through a view bound {origin}"
    # one root-cause bucket for "a view bound inside a since-left disable block does not validate its stores"
    skipkey = ("array-view/bound-inside-left-disable-block/store-not-validated"
               if (origin or "").startswith("inside") and re_ is None else None)
    if cs_ and j["verdict"] == "out" and skipkey is None:
        # one bucket per validator family for "the isinstance(value, ctype) shortcut skips the value check"
        fam_ = "float" if fi.kind in ("float", "farr") else "int" if fi.kind in ("int", "iarr") else fi.kind
        skipkey = f"ctypes-scalar/{fam_}/{j['cause']}-accepted"
    if origin == "used-inside":
        # the store itself runs inside a real disable block: the property speaks about "validation on" only and no
        # document decides whether such a store is validated (nor how unvalidated values are converted): executed, not judged
        return
    if re_ is not None:
        res.count(f"{group}:reused-object:{type(value).__name__.split('_Array_')[0]}:{j['verdict']}:{'refused' if raised is not None else 'accepted'}")
        if j["verdict"] == "out":
            res.shape("reuse", fi.kind, fi.code, form, type(value).__name__.split("_Array_")[0], j["cause"], bool(re_.get("other")))
            res.count("nontrivial:out-of-domain-content-in-a-reused-mutated-sequence-object")
    verdict = j["verdict"]
    res.count(f"{group}:{fc}:{verdict}:{'refused' if raised is not None else 'accepted'}")
    if verdict == "out":
        res.count(f"{group}:out:{j['cause']}")
    if j["vform"] != "py":
        res.count(f"{group}:ctypes-array:{verdict}:{'refused' if raised is not None else 'accepted'}")
    if isinstance(value, ctypes._SimpleCData):
        res.count(f"{group}:ctypes-scalar:{verdict}:{'refused' if raised is not None else 'accepted'}")
    ctx = "-next-to-nan" if (verdict == "out" and j["has_nan"]) else ""
    if raised is not None:
        if after != before:
            raise Violation((skipkey if not cs_ else None) or f"{group}/{fc}/not-atomic", f"{desc}: raised {type(raised).__name__} but the message bytes changed", trace)
        if verdict == "in":
            raise Violation(f"{group}/{fc}/in-domain-refused",
                            f"{desc}: in-domain value refused with {type(raised).__name__}: {raised}", trace)
    else:
        if verdict == "out":
            try:
                now = msgs.show(msgs.read_field(cobj, fi))
            except Exception as e:
                now = f"<unreadable: {type(e).__name__}>"
            raise Violation(skipkey or f"{group}/{fc}/{j['cause']}{ctx}-accepted",
                            f"{desc}: out-of-domain ({j['cause']}"
                            + (f" at position {j['pos']}" if j["pos"] is not None else "") + f") accepted; field now reads {now}", trace)
        lo, hi = base + fi.off, base + fi.off + fi.size
        if before[:lo] != after[:lo] or before[hi:] != after[hi:]:
            raise Violation(f"{group}/{fc}/bytes-outside-field-changed", f"{desc}: bytes outside [{lo},{hi}) changed", trace)
        if j["expected"] is not None:
            try:
                read = msgs.read_field(cobj, fi)
            except Exception as e:
                raise Violation(f"{group}/{fc}/readback-raises", f"{desc}: accepted but reading back raises {e!r}", trace)
            if not _model_equal(fi, read, j["expected"]):
                raise Violation(f"{group}/{fc}/readback-mismatch",
                                f"{desc}: accepted but reads back {msgs.show(read)}, expected {msgs.show(j['expected'])}", trace)
    # evidence
    if origin is not None and origin.startswith("inside") and verdict == "out":
        res.shape("view", fi.kind, fi.code, form, origin, j["cause"], bool(step["p"]))
        res.count("nontrivial:out-of-domain-store-through-view-bound-inside-a-left-disable-block")
    if verdict == "out" and j["pos"] is not None:
        pc = _posclass(j["pos"], j["nt"])
        res.count(f"{group}:bad-position:{pc}")
        if j["pos"] > 0:
            res.shape("bad", fi.kind, fi.code, form, j["vform"], j["cause"], pc, j["neigh"], _lenclass(j["nt"]))
            if j["vform"] != "py":
                res.count("nontrivial:bad-element-at-non-first-position-of-ctypes-array")
            res.count("nontrivial:bad-element-at-non-first-position")
            if j["neigh"] == "nan":
                res.count("nontrivial:bad-element-next-to-nan")
            res.sample({"case": desc, "verdict": "refused"}, limit=4)
    if verdict == "in" and raised is None and j["bnd"]:
        res.shape("bnd", fi.kind, fi.code if fi.code else _lenclass(fi.n), form, j["vform"], tuple(sorted(j["bnd"])))
        res.count("nontrivial:accepted-boundary")
        res.sample({"case": desc, "verdict": "accepted"}, limit=2)


def run_assign_case(trace: dict, res: Result):
    group = trace["sub"]
    cls = msgs.resolve(trace["cls"])
    root = cls()
    res.count(f"{group}:class:{msgs.ref_class_kind(trace['cls'])}")
    _reset_validation()
    try:
        for step in trace["steps"]:
            do_step(root, step, group, res, trace)
    finally:
        _reset_validation()


# -- disable blocks ---------------------------------------------------------------------------


class _CustomBase(BaseException):
    """A user-defined BaseException subclass (not an Exception)."""


ORDINARY_EXITS = ["ValueError", "KeyError", "StopIteration"]
BASE_EXITS = ["KeyboardInterrupt", "SystemExit", "GeneratorExit", "CancelledError", "CustomBaseException"]
# block entered inside a generator that is suspended in it and then closed / dropped / resumed so that it leaves normally
GEN_EXITS = ["gen-close", "gen-del", "gen-finish"]


def _make_exit(kind: str) -> BaseException:
    if kind == "CancelledError":
        import asyncio

        return asyncio.CancelledError()
    if kind == "CustomBaseException":
        return _CustomBase()
    if kind in ORDINARY_EXITS + BASE_EXITS:
        return {"ValueError": ValueError, "KeyError": KeyError, "StopIteration": StopIteration, "KeyboardInterrupt": KeyboardInterrupt,
                "SystemExit": SystemExit, "GeneratorExit": GeneratorExit}[kind]("verif: leaving the disable block")
    raise HarnessError(f"unknown exit kind {kind}")


def _exit_kind(nd: dict) -> str:
    e = nd["exc"]
    if e is True:  # traces written before exit kinds existed
        return "ValueError"
    return e or ""


def _probe_assign(kind: str):
    if kind == "int":
        m = msgs.FAMILY["FAM_SCALARS"]()
        m.i8 = 200
    elif kind == "byte":
        m = msgs.FAMILY["FAM_SCALARS"]()
        m.by = 256
    elif kind == "farr":
        m = msgs.FAMILY["FAM_ARR3"]()
        m.f32_a = [0.0, 1e39, 0.0]
    elif kind == "struct":
        m = msgs.FAMILY["FAM_STRUCTS"]()
        m.st = ()
    else:
        raise HarnessError(kind)


def _sig(nodes) -> str:
    return "".join(("I" if n["ig"] else "R") + ("!" + _exit_kind(n) if n["exc"] else "") + ("(" + _sig(n["ch"]) + ")" if n["ch"] else "")
                   for n in nodes)


def run_disable_case(trace: dict, res: Result):
    # every case starts from a clean state, whatever an earlier case (or defect) left behind
    if not V._VALIDATION_ENABLED.get():
        res.count("disable:state-reset-before-case")
    _reset_validation()
    kind = trace["probe"]
    st_ = {"last_abnormal": "", "probes": 0}

    def probe(depth: int, where: str):
        st_["probes"] += 1
        try:
            _probe_assign(kind)
            raised = False
        except HarnessError:
            raise
        except Exception:
            raised = True
        res.count(f"disable:probe:{'inside' if depth else 'outside'}:{'raised' if raised else 'silent'}")
        if depth == 0 and not raised:
            la = st_["last_abnormal"]
            why = ("normal-exit" if not la else "exception-exit" if la in ORDINARY_EXITS
                   else "generator-close" if la in GEN_EXITS else "baseexception-exit")
            raise Violation(f"disable/validation-off-after-{why}",
                            f"invalid {kind} probe accepted outside every real disable block ({where}; forest {_sig(trace['tree'])})",
                            trace)
        if depth > 0 and raised:
            raise Violation("disable/validation-on-inside-disable-block",
                            f"invalid {kind} probe refused inside a real disable block ({where}; forest {_sig(trace['tree'])})", trace)

    def body(nd: dict, d2: int, name: str):
        probe(d2, f"on entry of {name}")
        for i, ch in enumerate(nd["ch"]):
            node(ch, d2, f"{name}.{i}")

    def node(nd: dict, depth: int, name: str):
        d2 = depth + (0 if nd["ig"] else 1)
        ek = _exit_kind(nd)
        if ek in GEN_EXITS:
            def g():
                with V.disable_message_validation(ignore=nd["ig"]):
                    body(nd, d2, name)
                    if (yield 1) != "leave":
                        raise HarnessError("generator resumed")  # only gen-finish resumes it: the block is then left normally
                yield 2

            gen = g()
            next(gen)  # runs the block body; Violation / HarnessError from it propagate to the caller
            if ek == "gen-close":
                gen.close()
            elif ek == "gen-finish":
                gen.send("leave")
            else:
                del gen  # last reference: CPython finalises (closes) the generator right here
        elif ek:
            marker = _make_exit(ek)
            try:
                with V.disable_message_validation(ignore=nd["ig"]):
                    body(nd, d2, name)
                    raise marker
            except BaseException as e:  # only OUR exception is swallowed; Violation/HarnessError/anything else goes on
                if e is not marker:
                    raise
        else:
            with V.disable_message_validation(ignore=nd["ig"]):
                body(nd, d2, name)
        if ek and not nd["ig"]:
            st_["last_abnormal"] = ek
        cls_ = "normal" if not ek else "exception" if ek in ORDINARY_EXITS else "generator" if ek in GEN_EXITS else "baseexception"
        res.count(f"disable:exit:{'ignore' if nd['ig'] else 'real'}:{cls_}")
        if ek:
            res.count(f"disable:exit-kind:{ek}")
        probe(depth, f"after {ek or 'normal'} exit of {name}")

    try:
        probe(0, "before any block")
        for i, nd in enumerate(trace["tree"]):
            node(nd, 0, str(i))
    finally:
        _reset_validation()
    sig = _sig(trace["tree"])
    if "!" in sig:
        res.shape("dis", sig, kind)
        res.count("nontrivial:disable-forest-with-exception-exit")
        res.sample({"disable-forest": sig, "probe": kind}, limit=5)


class _Yield:
    def __await__(self):
        yield


def _suspendable(kind: str, ignore: bool):
    """A generator / hand-driven coroutine that enters a disable block, suspends INSIDE it, leaves it when resumed,
    suspends once more outside and finishes at the next resume."""
    if kind == "gen":
        def g():
            with V.disable_message_validation(ignore=ignore):
                yield "in"
            yield "out"

        return g()

    async def co():
        with V.disable_message_validation(ignore=ignore):
            await _Yield()
        await _Yield()

    return co()


KEY_SUSPENDED = "disable/validation-off-while-generator-suspended-in-block"
KEY_INTERLEAVED = "disable/validation-off-after-suspended-generators-left-their-blocks"


def run_suspended_case(trace: dict, res: Result):
    """The caller is never inside a disable block itself: each of its probe stores must be validated, whatever
    generators / coroutines are suspended (inside or outside their own disable block), finished or closed."""
    _reset_validation()
    kind = trace["probe"]
    gens = [dict(g, obj=None, state="new") for g in trace["gens"]]
    sig = []

    def probe(where: str):
        try:
            _probe_assign(kind)
            raised = False
        except HarnessError:
            raise
        except Exception:
            raised = True
        inside = [i for i, g in enumerate(gens) if g["state"] == "in" and not g["ig"]]
        res.count(f"suspended:probe:{'generator-inside-block' if inside else 'no-generator-inside-block'}:{'raised' if raised else 'silent'}")
        sig.append("P*" if inside else "P")
        if not raised:
            story = " ".join(sig)
            if inside:
                raise Violation(KEY_SUSPENDED, f"invalid {kind} probe accepted in the caller (which is in no disable block) while "
                                f"{gens[inside[0]]['kind']} #{inside[0]} is suspended inside its disable block ({where}; ops {story})", trace)
            raise Violation(KEY_INTERLEAVED, f"invalid {kind} probe accepted in the caller although no generator/coroutine is inside a "
                            f"disable block any more ({where}; ops {story})", trace)

    def step(g):
        try:
            g["obj"].send(None)
            return True
        except StopIteration:
            return False

    try:
        for op in trace["ops"]:
            if op[0] == "probe":
                probe(f"op {len(sig)}")
                continue
            g = gens[op[1]]
            sig.append(f"{op[0]}{op[1]}{'i' if g['ig'] else 'r'}{g['kind'][0]}")
            if op[0] == "start" and g["state"] == "new":
                g["obj"] = _suspendable(g["kind"], g["ig"])
                step(g)
                g["state"] = "in"
            elif op[0] == "resume" and g["state"] in ("in", "out"):
                g["state"] = "out" if (step(g) and g["state"] == "in") else "done"
            elif op[0] == "close" and g["state"] in ("in", "out"):
                g["obj"].close()
                g["state"] = "done"
            else:
                raise HarnessError(f"op {op} in state {g['state']}")
        for g in gens:  # finish: everything is closed, then validation must certainly be in force
            if g["state"] in ("in", "out"):
                g["obj"].close()
                g["state"] = "done"
        sig.append("end")
        probe("after every generator was finished or closed")
    finally:
        for g in gens:
            if g["obj"] is not None:
                try:
                    g["obj"].close()
                except Exception:
                    pass
        _reset_validation()
    story = " ".join(sig)
    if "P*" in story or (len(gens) > 1 and any(x.startswith("resume") or x.startswith("close") for x in sig)):
        res.shape("susp", story, kind)
        res.count("nontrivial:caller-store-with-suspended-or-interleaved-generators")
        res.sample({"suspended-generators": story, "probe": kind}, limit=5)


def run_case(trace: dict, res: Result):
    if trace["sub"] in ("suspended", "interleaved"):
        run_suspended_case(trace, res)
    elif trace["sub"] == "disable":
        run_disable_case(trace, res)
    else:
        run_assign_case(trace, res)


# ------------------------------------------------------------------------------------------------
# strategies


@functools.lru_cache(maxsize=8192)
def _elem_bad(fi: FI):
    k = fi.kind
    if k in ("int", "iarr"):
        return st.one_of(msgs.int_out(fi.code), msgs.int_out(fi.code), msgs.int_wrongtype())
    if k in ("float", "farr"):
        return st.one_of(msgs.float_out(fi.code), msgs.float_out(fi.code), msgs.float_wrongtype())
    if k in ("byte",):
        return st.one_of(msgs.byte_out(), msgs.byte_wrongtype())
    if k == "bytes":
        return st.one_of(msgs.int_out("byte"), msgs.byte_wrongtype())
    if k == "char":
        return st.one_of(msgs.char_out(), msgs.str_wrongtype())
    if k == "str":
        return st.one_of(msgs.str_out(fi.n), msgs.str_wrongtype())
    if k in ("struct", "sarr"):
        return msgs.struct_wrong(fi.scls)
    raise HarnessError(k)


@functools.lru_cache(maxsize=8192)
def _elem_dc(fi: FI):
    k = fi.kind
    if k in ("int", "iarr", "byte", "bytes"):
        return msgs.int_dc()
    if k in ("float", "farr"):
        return msgs.float_dc()
    if k == "char":
        return msgs.char_dc()
    if k == "str":
        return msgs.str_dc()
    return None


@functools.lru_cache(maxsize=8192)
def _elem_in(fi: FI):
    if fi.kind == "str":
        return msgs.str_in(fi.n, nul=True)
    return msgs.elem_in(fi)


_SLICE_PART = st.one_of(st.none(), st.integers(-12, 12))
_SLICE_STEP = st.sampled_from([None, None, 1, 2, 3, -1, -2, -3])


@st.composite
def _array_source(draw, ccls: type, fi: FI):
    """Another message's bound array: compatible (same class/field) or incompatible (any other array field)."""
    if draw(st.integers(0, 2)) > 0:
        src_cls, sfi = ccls, fi
    else:
        pool = [ccls] + [msgs.FAMILY[f"FAM_ARR{n}"] for n in msgs.ARRAY_LENS] + [msgs.FAMILY["FAM_STRUCTS"], msgs.FAMILY["FAM_SCALARS"]]
        src_cls = draw(st.sampled_from(pool))
        cands = [f for f in msgs.fields_of(src_cls) if f.kind in ARRAY_KINDS]
        if not cands:
            src_cls, sfi = ccls, fi
        else:
            sfi = draw(st.sampled_from(cands))
    init = draw(st.none() | msgs.seq_in(sfi, sfi.n))
    if init is not None and ("b" in init or "ba" in init):
        init = enc(list(dec(init)))
    return {"A": msgs.ref_of(src_cls), "f": sfi.name, "init": init, "sl": None}


_INT_SRC = st.sampled_from(msgs.INT_CODES)
_ANY_SRC = st.sampled_from(msgs.INT_CODES + msgs.INT_CODES + msgs.FLOAT_CODES)
_SMALL_INT = st.integers(0, 100)
_SMALL_FLT = st.sampled_from([0.0, -0.0, 1.0, -1.5, 0.1, 3.0e38, -3.0e38, 1e-45, 16777217.0])


def _src_edges(src: str, fi: FI):
    """Values a ctypes array of element type `src` can hold: (in the target's domain, outside it)."""
    if src in msgs.INT_CODES:
        lo, hi = msgs.INT_RANGE[src]
        cand = [lo, lo + 1, hi - 1, hi, hi // 2 + 1, -1, 0, 1, 127, 128, 255, 256, 32767, 32768, 65535, 65536,
                2 ** 31 - 1, 2 ** 31, 2 ** 32 - 1, 2 ** 32, 2 ** 63 - 1, 2 ** 63, -128, -129, -32768, -32769, -(2 ** 31), -(2 ** 31) - 1]
        cand = sorted({c for c in cand if lo <= c <= hi})
    elif src == "f32":
        cand = [0.0, -0.0, 1.0, 0.5, msgs.FLT_MAX, -msgs.FLT_MAX, 1e-45, float("inf"), float("-inf"), 100.0, -1.0]
    else:
        cand = [0.0, -0.0, 1.0, 0.5, msgs.FLT_MAX, -msgs.FLT_MAX, msgs.FLT_UNDER_OVER, msgs.FLT_OVER, -msgs.FLT_OVER, 1e39, -1e39,
                msgs.DBL_MAX, -msgs.DBL_MAX, 5e-324, float("inf"), float("-inf"), 100.0]
    good = [c for c in cand if msgs.classify_elem(fi, c, True)[0] == "in"]
    bad = [c for c in cand if msgs.classify_elem(fi, c, True)[0] == "out"]
    return good, bad


@st.composite
def _ctypes_array(draw, fi: FI, L: int):
    """{"C": code, "v": [...]}: a ctypes array of a drawn element type; all valid, one bad element at a drawn
    position, NaN neighbours for float sources, or a wrong length."""
    src = draw(_ANY_SRC if fi.kind == "farr" or draw(st.integers(0, 7)) == 0 else _INT_SRC)
    good, bad = _src_edges(src, fi)
    mode = draw(st.sampled_from(["valid", "valid", "one-bad", "one-bad", "one-bad", "wrong-len"]))
    n = L
    if mode == "wrong-len":
        n = draw(st.sampled_from(sorted({max(0, L - 1), L + 1, 0, L + 7} - {L})))
    base = _SMALL_FLT if src in msgs.FLOAT_CODES else _SMALL_INT
    fill = st.one_of(base, st.sampled_from(good)) if good else base
    vals = [draw(fill) for _ in range(min(n, 6))]
    if n > 6:
        f = draw(fill)
        vals = (vals + [f] * n)[:n] if draw(st.booleans()) else ([f] * n + vals)[-n:]
    if src in msgs.FLOAT_CODES and n and draw(st.integers(0, 3)) == 0:
        vals[draw(st.integers(0, n - 1))] = float("nan")
    if mode == "one-bad" and bad and n:
        vals[draw(st.integers(0, n - 1))] = draw(st.sampled_from(bad))
    return {"C": src, "v": [enc(x) for x in vals]}


_CS_VALUES = {
    "f32": [0.0, -0.0, 1.0, -1.5, 0.1, msgs.FLT_MAX, -msgs.FLT_MAX, 1e-45, float("inf"), float("-inf"), 1e39, -1e39, float("nan")],
    "f64": [0.0, -0.0, 1.0, -1.5, 0.1, msgs.DBL_MAX, 5e-324, 1e39, msgs.FLT_OVER, float("inf"), float("-inf"), float("nan")],
    "char": [bytes([x]) for x in (0, 1, 65, 97, 127, 128, 200, 233, 255)],
}


def _cs_values(code: str):
    if code in _CS_VALUES:
        return _CS_VALUES[code]
    lo, hi = msgs.INT_RANGE[code]
    return sorted({lo, hi, 0, 1, 5, 100, hi // 2 + 1})


@functools.lru_cache(maxsize=8192)
def _ctypes_scalar(fi: FI):
    """Scalar ctypes instances as a value form: of the field's own ctype (in range by construction - except +-inf / NaN in
    c_float/c_double and a non-ASCII c_char), of a wider/narrower type, or of another kind."""
    k = fi.kind
    own = fi.code if k in ("int", "iarr", "float", "farr") else "byte" if k in ("byte", "bytes") else "char" if k == "char" else None
    alts = []
    if own is not None:
        vals = _cs_values(own)
        o = st.sampled_from(vals)
        if own not in _CS_VALUES:
            o = st.one_of(o, st.integers(*msgs.INT_RANGE[own]))
        own_st = o.map(lambda x: {"c": own, "v": enc(x)})
        alts += [own_st, own_st]
    codes = [c for c in msgs.CT if c != "byte" and c != own]
    alts.append(st.sampled_from(codes).flatmap(lambda c: st.sampled_from(_cs_values(c)).map(lambda x: {"c": c, "v": enc(x)})))
    return st.one_of(alts)


@st.composite
def _seq_value(draw, ccls: type, fi: FI, L: int, whole: bool):
    mode = draw(st.sampled_from(["valid", "valid", "one-bad", "one-bad", "one-bad", "dc-mix", "wrong-len", "not-a-seq", "source",
                                 "ctypes", "ctypes", "ctypes-elem"]))
    if mode == "ctypes-elem":  # an otherwise valid sequence with scalar ctypes instance(s) as element(s)
        if fi.kind not in ("iarr", "farr", "bytes") or L == 0:
            mode = "one-bad"
        else:
            seq = draw(msgs.seq_in(fi, L))
            if "l" not in seq and "u" not in seq:
                seq = enc(list(dec(seq)))
            tag = "l" if "l" in seq else "u"
            elems = list(seq[tag])
            for _ in range(draw(st.integers(1, 2))):
                elems[draw(st.integers(0, L - 1))] = draw(_ctypes_scalar(fi))
            return {tag: elems}
    if mode == "ctypes":
        if fi.kind in ("iarr", "farr", "bytes"):
            v = draw(_ctypes_array(fi, L))
            if draw(st.integers(0, 3)) == 0:  # the same content as an array.array
                return {"arr": v["C"], "v": v["v"]}
            return v
        mode = "one-bad"
    if mode == "source" and not whole:
        mode = "one-bad"
    if mode == "source":
        return draw(_array_source(ccls, fi))
    if mode == "not-a-seq":
        alts = [enc(None), enc(0), enc(1.0), enc("a" * L), enc({})]
        return draw(st.sampled_from(alts))
    if mode == "wrong-len":
        L2 = draw(st.sampled_from(sorted({max(0, L - 1), L + 1, 0, 2 * L, L + 7} - {L})))
        return draw(msgs.seq_in(fi, L2))
    seq = draw(msgs.seq_in(fi, L))
    if L == 0 or mode == "valid":
        return seq
    if "l" not in seq and "u" not in seq:  # bytes form: keep as is for "valid", else turn into list
        seq = enc(list(dec(seq)))
    tag = "l" if "l" in seq else "u"
    elems = list(seq[tag])
    dcs = _elem_dc(fi)
    if mode == "dc-mix" or (dcs is not None and draw(st.booleans())):
        if dcs is not None:
            for _ in range(draw(st.integers(1, 2))):
                elems[draw(st.integers(0, L - 1))] = draw(dcs)
    if mode == "one-bad":
        pos = draw(st.integers(0, L - 1))
        elems[pos] = draw(_elem_bad(fi))
    return {tag: elems}


_VIEW = st.sampled_from([None, None, None, None] + VIEW_ORIGINS + ["inside-normal", "inside-exc"])


@st.composite
def _step(draw, cls: type, kinds: frozenset, prefill: bool = False):
    path, fi, ccls = msgs.pick_target(draw, cls, kinds)
    step = {"p": path, "f": fi.name, "form": "set", "k": None}
    if fi.kind not in ARRAY_KINDS:
        if prefill:
            step["v"] = draw(_elem_in(fi))
            return step
        alts = [_elem_in(fi), _elem_in(fi), _elem_bad(fi), _elem_bad(fi)]
        d = _elem_dc(fi)
        if d is not None:
            alts.append(d)
        if fi.kind != "struct":
            alts.append(_ctypes_scalar(fi))
        step["v"] = draw(st.one_of(alts))
        return step
    if prefill:
        step["v"] = draw(msgs.seq_in(fi, fi.n))
        return step
    form = draw(st.sampled_from(["set", "set", "item", "slice", "slice"]))
    step["form"] = form
    if form != "set":
        step["view"] = draw(_VIEW)
    if form == "set":
        step["v"] = draw(_seq_value(ccls, fi, fi.n, True))
        step = draw(_maybe_reuse(step, fi, fi.n))
    elif form == "item":
        step["k"] = draw(st.integers(-fi.n, fi.n - 1))
        alts = [_elem_in(fi), _elem_in(fi), _elem_bad(fi), _elem_bad(fi)]
        d = _elem_dc(fi)
        if d is not None:
            alts.append(d)
        if fi.kind == "bytes":
            alts.append(msgs.byte_in())
            alts.append(msgs.byte_out())
        if fi.kind in ("iarr", "farr", "bytes"):
            alts.append(_ctypes_scalar(fi))
        alts.append(st.sampled_from([enc([]), enc(()), enc([0]), enc((0,)), enc(b""), enc(b"ab")]))
        step["v"] = draw(st.one_of(alts))
    else:
        k = [draw(_SLICE_PART), draw(_SLICE_PART), draw(_SLICE_STEP)]
        L = len(range(*slice(*k).indices(fi.n)))
        if L == 0 and draw(st.integers(0, 3)) > 0:
            k = [None, None, draw(st.sampled_from([None, 1, -1, 2]))]
            L = len(range(*slice(*k).indices(fi.n)))
        step["k"] = k
        step["v"] = draw(_seq_value(ccls, fi, L, False))
        step = draw(_maybe_reuse(step, fi, L))
    return step


@st.composite
def _maybe_reuse(draw, step: dict, fi: FI, L: int):
    """With probability 1/3 turn a whole-array / slice store into: store the same (mutable) object first with valid
    content of the right length, mutate it in place into the drawn content, store it again (the judged store)."""
    v = step["v"]
    if not isinstance(v, dict) or not ({"l", "u", "ba", "C", "arr"} & set(v)) or draw(st.integers(0, 2)) > 0:
        return step
    if "u" in v:
        v = step["v"] = {"l": v["u"]}
    if "l" in v:
        first = draw(msgs.seq_in(fi, L))
        first = first if "l" in first else {"l": first["u"]} if "u" in first else enc(list(dec(first)))
    elif "ba" in v:
        first = enc(bytearray(draw(st.binary(min_size=L, max_size=L))))
    else:
        tag = "C" if "C" in v else "arr"
        small = 1.5 if v[tag] in msgs.FLOAT_CODES else draw(st.integers(0, 100))
        first = {tag: v[tag], "v": [enc(small)] * len(v["v"])}
    step["re"] = {"first": first, "other": draw(st.booleans())}
    return step


@st.composite
def assign_case(draw, group: str):
    kinds = GROUPS[group]
    ref = draw(msgs.class_ref(kinds))
    cls = msgs.resolve(ref)
    steps = []
    if draw(st.booleans()):
        steps.append(draw(_step(cls, kinds, prefill=True)))
    for _ in range(draw(st.integers(1, 2))):
        steps.append(draw(_step(cls, kinds)))
    return {"sub": group, "cls": ref, "steps": steps}


_EXIT = st.one_of(st.just(""), st.just(""), st.sampled_from(ORDINARY_EXITS), st.sampled_from(BASE_EXITS), st.sampled_from(BASE_EXITS),
                  st.sampled_from(GEN_EXITS))


def _node(depth: int):
    ch = st.just([]) if depth <= 0 else st.lists(st.deferred(lambda: _node(depth - 1)), max_size=3)
    return st.builds(lambda ig, exc, c: {"ig": ig, "exc": exc, "ch": c}, st.booleans(), _EXIT, ch)


@st.composite
def suspended_case(draw, sub: str):
    """Ops on 1-2 generators / coroutines; in the 'interleaved' campaign the caller only probes while none of them is
    suspended inside a REAL disable block (so the known leak of a suspended block does not mask what happens afterwards)."""
    gens = [{"ig": draw(st.integers(0, 3)) == 0, "kind": draw(st.sampled_from(["gen", "gen", "coro"]))}
            for _ in range(draw(st.integers(1, 2)) if sub == "suspended" else 2)]
    state = ["new"] * len(gens)
    ops = []
    for _ in range(draw(st.integers(1, 9))):
        cand = []
        for i, stt in enumerate(state):
            if stt == "new":
                cand.append(["start", i])
            elif stt in ("in", "out"):
                cand += [["resume", i], ["resume", i], ["close", i]]
        inside = any(stt == "in" and not g["ig"] for stt, g in zip(state, gens))
        if sub == "suspended" or not inside:
            cand += [["probe"], ["probe"]]
        if not cand:
            break
        op = draw(st.sampled_from(cand))
        ops.append(op)
        if op[0] == "start":
            state[op[1]] = "in"
        elif op[0] == "resume":
            state[op[1]] = "out" if state[op[1]] == "in" else "done"
        elif op[0] == "close":
            state[op[1]] = "done"
    return {"sub": sub, "gens": gens, "ops": ops, "probe": draw(st.sampled_from(["int", "byte", "farr", "struct"]))}


def disable_case():
    return st.builds(lambda tree, probe: {"sub": "disable", "tree": tree, "probe": probe},
                     st.lists(_node(3), min_size=1, max_size=4), st.sampled_from(["int", "byte", "farr", "struct"]))


# ------------------------------------------------------------------------------------------------


def shard(seed: int, n_assign: int, n_disable: int) -> Result:
    res = Result()
    for gi, group in enumerate(GROUPS):
        hyp_run(lambda t: run_case(t, res), assign_case(group), seed * 16 + gi, n_assign, res)
    hyp_run(lambda t: run_case(t, res), disable_case(), seed * 16 + 15, n_disable, res)
    # own campaigns, so that a finding here (one is a known open one) cannot hide anything in the forest campaign
    hyp_run(lambda t: run_case(t, res), suspended_case("suspended"), seed * 16 + 14, max(1, n_disable // 2), res)
    hyp_run(lambda t: run_case(t, res), suspended_case("interleaved"), seed * 16 + 13, max(1, n_disable // 2), res)
    _reset_validation()
    return res


def run(ctx: RunContext) -> int:
    t0 = time.time()
    n_assign = ctx.scale(300, 5000)
    n_disable = ctx.scale(300, 5000)
    res = run_shards(shard, [(derive_seed(ctx.seed, i), n_assign, n_disable) for i in range(16)])
    return conclude(ctx, res, RULE, ASSUME, t0)


def replay_trace(trace: dict) -> None:
    """Re-execute one concrete case without Hypothesis; raises Violation if the property still fails."""
    try:
        run_case(trace, Result())
    finally:
        _reset_validation()
