"""C09 - field validation is sound, complete and atomic (Engine C, in-process message PBT)."""
from __future__ import annotations

import array
import asyncio
import contextvars
import ctypes
import functools
import math
import sys
import threading
import time

from hypothesis import strategies as st

import pyrtma.validators as V
from pyrtma.message_base import MessageBase

from vlib import msgs
from vlib.common import HarnessError, Result, RunContext, Violation, conclude, derive_seed, hyp_run, run_shards
from vlib.msgs import FI, dec, enc

RULE = (
    "Hypothesis draws, per validator family (int, byte, float, char, string, int-array, float-array, byte-array, "
    "struct, struct-array: one independent campaign each), a class (56 core MDFs + 5 core structs, a hand-written family "
    "with every validator kind at several widths/lengths, or a class built from a drawn field list with nested structs "
    "and struct arrays), a field reached by a random walk through nested structs/struct-array elements, an assignment "
    "form (scalar set, whole-array set from list/tuple/bytes/range/ctypes array or array.array of any integer or float element "
    "type/another "
    "message's array, element, slice with drawn "
    "start/stop/step; element and slice stores go through a fresh attribute access or through a bound view object obtained "
    "earlier: outside any block, outside with a disable block entered and left in between, inside a disable block since left "
    "normally / by ValueError / by a BaseException, or bound outside and used inside a real block) ; in a third of the whole-array/slice stores the SAME mutable sequence object (list, bytearray, ctypes array, array.array) "
    "is first stored with valid content - into this or another instance - then mutated in place into the drawn content and "
    "stored again, the second store being judged) and a value from boundary sets, the full range, wrong Python types, wrong lengths, or a valid "
    "sequence with ONE bad element substituted at a drawn position (neighbours may be NaN/bool/extremes); 1-3 "
    "assignments per message, each checked against a domain model (accepted => in-domain, read-back equal, bytes "
    "outside the field untouched; raised => all bytes unchanged; out-of-domain => raised). An 11th campaign draws "
    "forests of nested disable_message_validation(ignore) blocks left normally, by an ordinary exception (ValueError, KeyError, "
    "StopIteration), by a BaseException (KeyboardInterrupt, SystemExit, GeneratorExit, asyncio.CancelledError, a custom "
    "BaseException subclass) or entered in a generator that is suspended inside the block and then closed / dropped, and probes with an "
    "invalid assignment inside every block and after every exit; in half of the forests blocks are also entered through DECORATOR "
    "use - `@disable_message_validation(ignore)` on functions that are then called: a decorator object of the node's own or one of "
    "1-2 decorator objects shared by the whole forest and applied to two functions each (nodes below such a node mostly call the "
    "same function again or its sibling: one decorator object entered again while still active), the decorated function calling "
    "itself 0-2 more times (probes on entry of every level and after every inner call returned), decorated calls inside with blocks "
    "and with blocks inside decorated calls, left normally or by an exception that propagates through every level. Two more campaigns draw op sequences (start / resume / close / "
    "caller probe) over 1-2 generators or hand-driven coroutines that suspend INSIDE their own disable block: the caller, which is "
    "in no block, probes while they are suspended ('suspended') or only once none is inside a real block ('interleaved'). "
    "Two further campaigns ('threads', 'contexts') draw a schedule of up to 20 operations over 2-4 REAL threads, 0-3 asyncio tasks "
    "of a private event loop driven by the harness thread, the harness thread itself and 0-4 contexts made by "
    "contextvars.copy_context(); the harness owns the schedule (strict baton hand-over through semaphores / futures: one "
    "operation at a time, nothing concurrent, every thread joined and every task finished at the end of the case; a 30 s "
    "watchdog only turns a stuck hand-over into a harness error). Operations: enter a disable block (ignore=True/False, "
    "nesting <= 3) as a real with statement on the actor's stack - threads also by calling one of two functions decorated with THE "
    "one decorator object the case keeps per ignore flag (the same decorated function active in several threads at once, and "
    "again in the same thread), as do the programs executed by Context.run - leave the innermost own block normally or by one of 7 "
    "exceptions, probe (an out-of-domain store, then an in-domain store, on the actor's own or on ONE shared message object), "
    "copy the current context, Context.run(copy) by the harness or a thread (a probe, optionally followed by a block of its own "
    "entered, probed and left inside that run), create a task (from the harness or a task), start a thread (from a thread). "
    "'threads' derives contexts/tasks/threads only where the deriving actor is inside no real block, 'contexts' also inside "
    "blocks (used while those blocks are open and after they were left). Every case ends with: everybody leaves and ends, "
    "then a probe in the harness thread, in every copied context and in a newly started thread. Oracle: a store by an "
    "actor that is inside no real block of its OWN, whose context was derived while no still-open real block was open, must be "
    "refused with the bytes unchanged (and the in-domain store accepted and read back); inside an own real block it must not "
    "be refused. Non-trivial = an out-of-domain element at a "
    "non-first position of a sequence, or out-of-domain content in a reused, mutated sequence object, or an out-of-domain store "
    "through a view bound inside a since-left disable block, or an "
    "accepted boundary value, or a disable forest with a block left by "
    "exception or with a real decorator object entered again while it is active, or a threads/contexts schedule with a judged store outside every block while another actor is inside one / "
    "after non-nested blocks of two actors / in a context derived outside every block / derived inside a since-left block; distinct = (kind, element type, form, cause, position class, neighbour class, length class) / "
    "(kind, type, form, boundary classes) / forest signature."
)
ASSUME = [
    "don't-cares (never asserted either way): bool for int/float/byte fields, NaN for float fields, '' and bytes for Char, "
    "bytes for String, bytes objects as elements of a sequence for ByteArray, Fraction/Decimal for float fields (not generated), "
    "NaN held by a c_float/c_double scalar, empty slices, the exception type (any exception counts as refused)",
    "scalar ctypes instances are judged on the Python value they hold: an instance of the field's own ctype (the __set__ "
    "signatures list it) is in-domain unless it holds +-inf (float fields) or a byte >= 0x80 (Char), which must be refused "
    "like the plain Python value; an instance of any other ctypes type (wider, narrower, other kind) or one used as an element "
    "of a sequence must be refused when the held value is outside the domain and is a don't-care otherwise (if accepted it "
    "must read back as the held value)",
    "ctypes arrays (listed by the __set__ signatures as accepted values) of any of the 8 integer element types, and c_float/"
    "c_double, are judged element-wise on the Python values they hold: in-domain iff every element is in the field's domain and "
    "the length matches",
    "in-domain canonical values (ints in range, finite representable floats/ints, ASCII strings of length <= n-1, one ASCII "
    "char, byte 0..255 or 1-byte bytes, equal-length list/tuple/bytes/range of such, exact struct class instances, a bound "
    "array of identical element type and length) must be ACCEPTED: this is what tests/test_validators.py::test_validator_range "
    "documents and without it a validator refusing everything would pass; reported under separate keys */in-domain-refused",
    "float32 domain = struct.pack('<f', v) does not raise OverflowError; read-back compared bit-exactly after that round trip "
    "(NaN reads back as any NaN)",
    "strings are compared up to the first NUL; stale bytes behind the NUL inside the field are allowed",
    "a store executed INSIDE a real disable block through a view bound outside it: no document decides whether it is validated, "
    "and the property only speaks about validation being on: such stores are executed but not judged",
    "in the forest campaign nothing is probed in the caller while a generator is suspended inside a block (that is the subject "
    "of the separate 'suspended' campaign, whose finding on the unchanged code is a known open one); after close() / garbage "
    "collection / normal completion validation must be in force again",
    "a caller that is lexically and dynamically outside every disable block is 'not inside an explicit disable block' even while "
    "a generator or coroutine it drives is suspended inside one (asyncio Tasks run in their own context and are not affected)",
    "threads / contexts campaigns: 'inside an explicit disable block' is read as: the executing context entered a real block "
    "itself and has not left it (must not be refused), or it was derived - copy_context(), asyncio task - from a context in "
    "which a real block was open at that moment and that block's with body is still executing, or the thread that calls "
    "Context.run is itself inside a real block of its own (both not judged: no document decides). Once every block that was "
    "open at derivation has been left and the context is in none of its own, the store MUST be validated. A new thread "
    "starts outside every block (unless the interpreter copies the starter's context, sys.flags.thread_inherit_context). "
    "In-domain stores are only judged where validation must be on",
    "disable_message_validation(...) used as a decorator is inside the domain: it is a contextlib.contextmanager function, whose "
    "objects are documented ContextDecorators (a fresh block per call of the decorated function); a call of a decorated function "
    "is 'inside an explicit disable block' from entry to exit (normal or by exception) exactly like the with statement it stands "
    "for. NOT generated: re-entering one manager object with two with statements (single use on the unchanged code: RuntimeError), "
    "decorated generator / coroutine functions (the block is left before the body runs)",
    "disable-block probes use assignments that ctypes itself accepts silently (int8=200, byte=256, float32[]=[0,1e39,..], "
    "struct=()), so 'raised' can only come from the validators",
]

GROUPS = {
    "int": frozenset(["int"]),
    "byte": frozenset(["byte"]),
    "float": frozenset(["float"]),
    "char": frozenset(["char"]),
    "string": frozenset(["str"]),
    "int-array": frozenset(["iarr"]),
    "float-array": frozenset(["farr"]),
    "byte-array": frozenset(["bytes"]),
    "struct": frozenset(["struct"]),
    "struct-array": frozenset(["sarr"]),
}
ARRAY_KINDS = ("iarr", "farr", "bytes", "sarr")
_BOUND = (V.ArrayField, V.StructArray)

# ------------------------------------------------------------------------------------------------
# executor + oracle (used by the Hypothesis wrapper and by replay)


def _reset_validation():
    """Clean state between cases, whatever an earlier case (or a defect) left behind."""
    sw = V._VALIDATION_ENABLED
    if hasattr(sw, "set"):  # a plain flag (context variable or any holder with the same calls)
        sw.set(True)
    depth = getattr(V, "_DISABLE_DEPTH", None)  # a nesting counter, should the code under test keep one
    if depth is not None:
        depth.set(0)
    blocks = getattr(V, "_DISABLE_BLOCKS", None)  # the entered blocks themselves, should it keep those
    if blocks is not None:
        blocks.set(())


VIEW_ORIGINS = ["outside", "outside-then-block", "inside-normal", "inside-exc", "inside-base", "used-inside"]


class _Leave(BaseException):
    pass


def _bind_view(cobj, name: str, origin: str):
    """Obtain the bound array view `cobj.<name>` somewhere else than at the store itself."""
    if origin in ("outside", "used-inside"):
        return getattr(cobj, name)
    if origin == "outside-then-block":
        view = getattr(cobj, name)
        with V.disable_message_validation():
            pass
        return view
    if origin == "inside-normal":
        with V.disable_message_validation():
            view = getattr(cobj, name)
        return view
    marker = ValueError("verif") if origin == "inside-exc" else _Leave()
    view = None
    try:
        with V.disable_message_validation():
            view = getattr(cobj, name)
            raise marker
    except BaseException as e:
        if e is not marker:
            raise
    return view


def _targets(fi: FI, form: str, k):
    if form == "set":
        return list(range(fi.n))
    if form == "item":
        if not (-fi.n <= k < fi.n):
            raise HarnessError(f"index {k} out of range for {fi}")
        return [k % fi.n]
    return list(range(*slice(*k).indices(fi.n)))


def _is_nan(v) -> bool:
    return isinstance(v, float) and math.isnan(v)


def _boundary_classes(fi: FI, v, exp) -> set:
    out = set()
    k = fi.kind
    if k in ("int", "iarr", "byte", "bytes"):
        code = fi.code if k in ("int", "iarr") else "byte"
        lo, hi = msgs.INT_RANGE[code]
        if isinstance(exp, int):
            if exp == lo:
                out.add("min")
            if exp == hi:
                out.add("max")
    elif k in ("float", "farr"):
        if isinstance(exp, float):
            top = msgs.FLT_MAX if fi.code == "f32" else msgs.DBL_MAX
            if abs(exp) == top:
                out.add("fmax" if exp > 0 else "fmin")
                if isinstance(v, float) and abs(v) != top:
                    out.add("rounds-to-max")
            if exp == 0.0 and math.copysign(1.0, exp) < 0:
                out.add("negzero")
            if exp != 0.0 and abs(exp) < (1.2e-38 if fi.code == "f32" else 2.3e-308):
                out.add("denormal")
            if isinstance(v, int) and not isinstance(v, bool) and abs(v) > 2 ** 53:
                out.add("bigint")
    elif k == "str":
        if isinstance(v, str):
            if len(v) == fi.n - 1:
                out.add("maxlen")
            if "\0" in v:
                out.add("nul")
    elif k == "char":
        if v in ("\0", "\x7f"):
            out.add("edge-char")
    return out


def judge(fi: FI, form: str, k, value, before_model):
    """-> dict(verdict, cause, expected, pos, n_targets, has_nan, has_bool, bnd)"""
    j = {"verdict": "dc", "cause": "", "expected": None, "pos": None, "nt": 1, "has_nan": False, "has_bool": False,
         "bnd": set(), "neigh": "plain", "vform": "py"}
    if fi.kind not in ARRAY_KINDS:
        if form != "set":
            raise HarnessError(f"form {form} on scalar field")
        v, c, e = msgs.classify_elem(fi, value, False)
        j.update(verdict=v, cause=c, expected=e)
        if v == "in":
            j["bnd"] = _boundary_classes(fi, value, e)
        return j
    tg = _targets(fi, form, k)
    j["nt"] = len(tg)
    if form == "item":
        v, c, e = msgs.classify_elem(fi, value, False)
        j.update(verdict=v, cause=c)
        if v != "out" and e is not None:
            m = list(before_model)
            m[tg[0]] = e
            j["expected"] = m
        if v == "in":
            j["bnd"] = _boundary_classes(fi, value, e)
        return j
    # whole array or slice
    if isinstance(value, _BOUND) and form == "set":
        same_cls = type(value) is type(fi.desc)
        if fi.kind == "sarr":
            same_el = same_cls and value._validator._ctype is fi.scls
        else:
            same_el = same_cls and type(value._validator) is type(fi.desc._validator)
        if not same_el:
            j.update(verdict="out", cause="wrong-array-type")
        elif len(value) != fi.n:
            j.update(verdict="out", cause="wrong-length")
        elif fi.kind == "farr" and any(isinstance(x, float) and math.isinf(x) for x in value[:]):
            # the source array holds infinity (it got there without validation: received bytes, a disable block):
            # infinity is outside the domain of a float field whichever way it is handed over
            j.update(verdict="out", cause="infinity-in-source-array")
        else:
            if fi.kind == "bytes":
                exp = list(bytes(value[:]))
            elif fi.kind == "sarr":
                exp = [bytes(x) for x in value[:]]
            else:
                exp = list(value[:])
            j.update(verdict="in", expected=exp)
        return j
    if isinstance(value, (list, tuple, bytes, bytearray, range, str, ctypes.Array, array.array) + _BOUND):
        elems = list(value)  # a ctypes array / array.array is judged on the Python values it holds
        if isinstance(value, ctypes.Array):
            j["vform"] = "ctypes:" + msgs.CT_CODE.get(value._type_, "?")
        elif isinstance(value, array.array):
            j["vform"] = "array.array:" + value.typecode
    else:
        if not tg:  # nothing is stored: empty slices are a don't-care whatever is assigned to them
            j.update(verdict="dc", cause="empty")
            return j
        j.update(verdict="out", cause="not-a-sequence")
        return j
    cls_ = [msgs.classify_elem(fi, x, True) for x in elems]
    j["has_nan"] = any(_is_nan(x) for x in elems)
    j["has_bool"] = any(isinstance(x, bool) for x in elems)
    bad = [i for i, c in enumerate(cls_) if c[0] == "out"]
    if len(elems) != len(tg):
        j.update(verdict="out", cause="wrong-length")
        return j
    if bad:
        j.update(verdict="out", cause=cls_[bad[0]][1], pos=bad[0])
        others = [x for i, x in enumerate(elems) if i != bad[0]]
        if any(_is_nan(x) for x in others):
            j["neigh"] = "nan"
        elif any(isinstance(x, bool) for x in others):
            j["neigh"] = "bool"
        elif any(_boundary_classes(fi, x, c[2]) for x, c in zip(elems, cls_) if c[0] == "in"):
            j["neigh"] = "extreme"
        return j
    if not tg:
        j.update(verdict="dc", cause="empty")
        return j
    if any(c[0] == "dc" for c in cls_):
        j.update(verdict="dc", cause=next(c[1] for c in cls_ if c[0] == "dc"))
    elif fi.kind == "bytes" and isinstance(value, (bytes, bytearray)) and len(value) == 1:
        # ByteArray reads a 1-byte bytes object as ONE element, so `arr[0:1] = b"x"` is refused (observed, harmless:
        # refusing is allowed by the property); acceptance is only demanded for the documented canonical forms
        j.update(verdict="dc", cause="one-byte-bytes-as-sequence")
    else:
        j.update(verdict="in")
    if all(c[2] is not None for c in cls_):
        m = list(before_model)
        for t, c in zip(tg, cls_):
            m[t] = c[2]
        j["expected"] = m
    if j["verdict"] == "in":
        for x, c in zip(elems, cls_):
            j["bnd"] |= _boundary_classes(fi, x, c[2])
    return j


def _model_equal(fi: FI, got, want) -> bool:
    if fi.kind in ARRAY_KINDS:
        return len(got) == len(want) and all(msgs.elem_equal(fi, g, w) for g, w in zip(got, want))
    return msgs.elem_equal(fi, got, want)


def _formclass(fi: FI, form: str) -> str:
    if fi.kind in ARRAY_KINDS:
        return "item" if form == "item" else "seq"
    return "set"


def _lenclass(n: int) -> str:
    return "1" if n == 1 else "2" if n == 2 else "3-8" if n <= 8 else ">8"


def _posclass(pos: int, n: int) -> str:
    return "first" if pos == 0 else "last" if pos == n - 1 else "middle"


def do_step(root: MessageBase, step: dict, group: str, res: Result, trace: dict):
    cobj, ccls, base = msgs.walk(root, step["p"])
    fi = msgs.field(ccls, step["f"])
    form, k = step["form"], step.get("k")
    value = dec(step["v"])
    re_ = step.get("re")
    if re_ is not None:
        # the SAME sequence object is stored twice with an in-place mutation in between; the second store is judged
        obj = dec(re_["first"])
        if type(obj) is not type(value) or not isinstance(obj, (list, bytearray, ctypes.Array, array.array)):
            raise HarnessError(f"reused object: {type(obj).__name__} vs {type(value).__name__}")
        tgt = cobj
        if re_.get("other"):  # first store into ANOTHER instance of the class
            tgt, _c2, _b2 = msgs.walk(type(root)(), step["p"])
        key0 = k if form == "item" else slice(*k) if form == "slice" else None
        try:
            if form == "set":
                setattr(tgt, fi.name, obj)
            else:
                getattr(tgt, fi.name)[key0] = obj
            res.count(f"{group}:reused-object:first-store:accepted")
        except HarnessError:
            raise
        except Exception:
            res.count(f"{group}:reused-object:first-store:refused")
        if isinstance(obj, list):
            obj[:] = list(value)
        elif isinstance(obj, bytearray):
            obj[:] = bytes(value)
        elif isinstance(obj, array.array):
            if obj.typecode != value.typecode:
                raise HarnessError("reused array.array: typecode differs")
            obj[:] = value
        else:
            if obj._type_ is not value._type_ or len(obj) != len(value):
                raise HarnessError("reused ctypes array: type/length differs")
            for i_, e_ in enumerate(value):
                obj[i_] = e_
        value = obj
    before = bytes(root)
    before_model = read = None
    try:
        before_model = msgs.read_field(cobj, fi)
    except Exception as e:  # state polluted by an earlier (already reported) acceptance; cannot happen on step 1
        raise HarnessError(f"cannot read field before assignment: {e!r}")
    j = judge(fi, form, k, value, before_model)
    fc = _formclass(fi, form)
    desc = (f"{ccls.__name__}.{fi.name} ({fi.tag}) form={form}" + (f" key={k}" if k is not None else "")
            + f" value={msgs.show(value)}")
    raised = None
    origin = step.get("view") if form != "set" else None
    if origin is not None and origin not in VIEW_ORIGINS:
        raise HarnessError(f"unknown view origin {origin}")
    key_ = k if form == "item" else slice(*k) if form == "slice" else None
    try:
        if form == "set":
            setattr(cobj, fi.name, value)
        elif origin is None:
            getattr(cobj, fi.name)[key_] = value  # fresh attribute access
        else:
            view = _bind_view(cobj, fi.name, origin)  # bound view object obtained earlier / elsewhere
            if origin == "used-inside":
                with V.disable_message_validation():
                    view[key_] = value
            else:
                view[key_] = value
    except HarnessError:
        raise
    except Exception as e:  # any exception type counts as "refused"
        raised = e
    finally:
        if origin is not None:
            _reset_validation()
    after = bytes(root)
    cs_ = isinstance(value, ctypes._SimpleCData)
    if cs_:
        fc = fc + "@ctypes-scalar"
    if re_ is not None:
        fc = fc + "@reused-mutated-object"
        desc += " (the same object was stored before with valid content" + (" into another instance" if re_.get("other") else "") + " and mutated in place)"
    if origin is not None:
        res.count(f"{group}:view:{origin}:{j['verdict']}:{'refused' if raised is not None else 'accepted'}")
        fc = fc + ("@view-bound-inside-left-block" if origin.startswith("inside") else "@view-bound-outside")
        desc += f" through a view bound {origin}"
    # one root-cause bucket for "a view bound inside a since-left disable block does not validate its stores"
    skipkey = ("array-view/bound-inside-left-disable-block/store-not-validated"
               if (origin or "").startswith("inside") and re_ is None else None)
    if cs_ and j["verdict"] == "out" and skipkey is None:
        # one bucket per validator family for "the isinstance(value, ctype) shortcut skips the value check"
        fam_ = "float" if fi.kind in ("float", "farr") else "int" if fi.kind in ("int", "iarr") else fi.kind
        skipkey = f"ctypes-scalar/{fam_}/{j['cause']}-accepted"
    if origin == "used-inside":
        # the store itself runs inside a real disable block: the property speaks about "validation on" only and no
        # document decides whether such a store is validated (nor how unvalidated values are converted): executed, not judged
        return
    if re_ is not None:
        res.count(f"{group}:reused-object:{type(value).__name__.split('_Array_')[0]}:{j['verdict']}:{'refused' if raised is not None else 'accepted'}")
        if j["verdict"] == "out":
            res.shape("reuse", fi.kind, fi.code, form, type(value).__name__.split("_Array_")[0], j["cause"], bool(re_.get("other")))
            res.count("nontrivial:out-of-domain-content-in-a-reused-mutated-sequence-object")
    verdict = j["verdict"]
    res.count(f"{group}:{fc}:{verdict}:{'refused' if raised is not None else 'accepted'}")
    if verdict == "out":
        res.count(f"{group}:out:{j['cause']}")
    if j["vform"] != "py":
        res.count(f"{group}:ctypes-array:{verdict}:{'refused' if raised is not None else 'accepted'}")
    if isinstance(value, ctypes._SimpleCData):
        res.count(f"{group}:ctypes-scalar:{verdict}:{'refused' if raised is not None else 'accepted'}")
    ctx = "-next-to-nan" if (verdict == "out" and j["has_nan"]) else ""
    if raised is not None:
        if after != before:
            raise Violation((skipkey if not cs_ else None) or f"{group}/{fc}/not-atomic", f"{desc}: raised {type(raised).__name__} but the message bytes changed", trace)
        if verdict == "in":
            raise Violation(f"{group}/{fc}/in-domain-refused",
                            f"{desc}: in-domain value refused with {type(raised).__name__}: {raised}", trace)
    else:
        if verdict == "out":
            try:
                now = msgs.show(msgs.read_field(cobj, fi))
            except Exception as e:
                now = f"<unreadable: {type(e).__name__}>"
            raise Violation(skipkey or f"{group}/{fc}/{j['cause']}{ctx}-accepted",
                            f"{desc}: out-of-domain ({j['cause']}"
                            + (f" at position {j['pos']}" if j["pos"] is not None else "") + f") accepted; field now reads {now}", trace)
        lo, hi = base + fi.off, base + fi.off + fi.size
        if before[:lo] != after[:lo] or before[hi:] != after[hi:]:
            raise Violation(f"{group}/{fc}/bytes-outside-field-changed", f"{desc}: bytes outside [{lo},{hi}) changed", trace)
        if j["expected"] is not None:
            try:
                read = msgs.read_field(cobj, fi)
            except Exception as e:
                raise Violation(f"{group}/{fc}/readback-raises", f"{desc}: accepted but reading back raises {e!r}", trace)
            if not _model_equal(fi, read, j["expected"]):
                raise Violation(f"{group}/{fc}/readback-mismatch",
                                f"{desc}: accepted but reads back {msgs.show(read)}, expected {msgs.show(j['expected'])}", trace)
    # evidence
    if origin is not None and origin.startswith("inside") and verdict == "out":
        res.shape("view", fi.kind, fi.code, form, origin, j["cause"], bool(step["p"]))
        res.count("nontrivial:out-of-domain-store-through-view-bound-inside-a-left-disable-block")
    if verdict == "out" and j["pos"] is not None:
        pc = _posclass(j["pos"], j["nt"])
        res.count(f"{group}:bad-position:{pc}")
        if j["pos"] > 0:
            res.shape("bad", fi.kind, fi.code, form, j["vform"], j["cause"], pc, j["neigh"], _lenclass(j["nt"]))
            if j["vform"] != "py":
                res.count("nontrivial:bad-element-at-non-first-position-of-ctypes-array")
            res.count("nontrivial:bad-element-at-non-first-position")
            if j["neigh"] == "nan":
                res.count("nontrivial:bad-element-next-to-nan")
            res.sample({"case": desc, "verdict": "refused"}, limit=4)
    if verdict == "in" and raised is None and j["bnd"]:
        res.shape("bnd", fi.kind, fi.code if fi.code else _lenclass(fi.n), form, j["vform"], tuple(sorted(j["bnd"])))
        res.count("nontrivial:accepted-boundary")
        res.sample({"case": desc, "verdict": "accepted"}, limit=2)


def run_assign_case(trace: dict, res: Result):
    group = trace["sub"]
    cls = msgs.resolve(trace["cls"])
    root = cls()
    res.count(f"{group}:class:{msgs.ref_class_kind(trace['cls'])}")
    _reset_validation()
    try:
        for step in trace["steps"]:
            do_step(root, step, group, res, trace)
    finally:
        _reset_validation()


# -- disable blocks ---------------------------------------------------------------------------


class _CustomBase(BaseException):
    """A user-defined BaseException subclass (not an Exception)."""


ORDINARY_EXITS = ["ValueError", "KeyError", "StopIteration"]
BASE_EXITS = ["KeyboardInterrupt", "SystemExit", "GeneratorExit", "CancelledError", "CustomBaseException"]
# block entered inside a generator that is suspended in it and then closed / dropped / resumed so that it leaves normally
GEN_EXITS = ["gen-close", "gen-del", "gen-finish"]


def _make_exit(kind: str) -> BaseException:
    if kind == "CancelledError":
        import asyncio

        return asyncio.CancelledError()
    if kind == "CustomBaseException":
        return _CustomBase()
    if kind in ORDINARY_EXITS + BASE_EXITS:
        return {"ValueError": ValueError, "KeyError": KeyError, "StopIteration": StopIteration, "KeyboardInterrupt": KeyboardInterrupt,
                "SystemExit": SystemExit, "GeneratorExit": GeneratorExit}[kind]("verif: leaving the disable block")
    raise HarnessError(f"unknown exit kind {kind}")


def _exit_kind(nd: dict) -> str:
    e = nd["exc"]
    if e is True:  # traces written before exit kinds existed
        return "ValueError"
    return e or ""


def _probe_assign(kind: str):
    if kind == "int":
        m = msgs.FAMILY["FAM_SCALARS"]()
        m.i8 = 200
    elif kind == "byte":
        m = msgs.FAMILY["FAM_SCALARS"]()
        m.by = 256
    elif kind == "farr":
        m = msgs.FAMILY["FAM_ARR3"]()
        m.f32_a = [0.0, 1e39, 0.0]
    elif kind == "struct":
        m = msgs.FAMILY["FAM_STRUCTS"]()
        m.st = ()
    else:
        raise HarnessError(kind)


def _via_sig(nd: dict) -> str:
    """'' for a with statement; '@' = a decorator object of its own, '@0a' = function a decorated by shared decorator
    object 0; '^2' = the decorated function calls itself two more times before it runs its body."""
    via = nd.get("via")
    if not via:
        return ""
    return "@" + (f"{via['d']}{'ab'[via['f']]}" if via["d"] >= 0 else "") + (f"^{via['rec']}" if via["rec"] else "")


def _sig(nodes) -> str:
    return "".join(("I" if n["ig"] else "R") + _via_sig(n) + ("!" + _exit_kind(n) if n["exc"] else "")
                   + ("(" + _sig(n["ch"]) + ")" if n["ch"] else "") for n in nodes)


def _decorate(deco):
    """A function decorated with `deco` (an object returned by disable_message_validation(...), used as a DECORATOR);
    with level > 0 it calls itself - through its decorated name, like any recursive function - before it goes on."""

    @deco
    def fn(level: int, enter, back):
        enter(level)
        if level > 0:
            fn(level - 1, enter, back)
            back(level)

    return fn


def run_disable_case(trace: dict, res: Result):
    # every case starts from a clean state, whatever an earlier case (or defect) left behind
    if not V._VALIDATION_ENABLED.get():
        res.count("disable:state-reset-before-case")
    _reset_validation()
    kind = trace["probe"]
    st_ = {"last_abnormal": "", "probes": 0, "reentered": False}
    # decorator objects shared by the whole case (entered again while still active when nodes using them nest), each
    # applied to two functions
    shared = []
    for ig in trace.get("decos", []):
        deco = V.disable_message_validation(ignore=bool(ig))
        shared.append((bool(ig), [_decorate(deco), _decorate(deco)]))
    active = []  # shared decorator objects whose decorated functions are executing right now

    def probe(depth: int, where: str):
        st_["probes"] += 1
        try:
            _probe_assign(kind)
            raised = False
        except HarnessError:
            raise
        except Exception:
            raised = True
        res.count(f"disable:probe:{'inside' if depth else 'outside'}:{'raised' if raised else 'silent'}")
        if depth == 0 and not raised:
            la = st_["last_abnormal"]
            why = ("normal-exit" if not la else "exception-exit" if la in ORDINARY_EXITS
                   else "generator-close" if la in GEN_EXITS else "baseexception-exit")
            if st_["reentered"]:
                why += "-of-decorator-object-entered-again-while-active"
            raise Violation(f"disable/validation-off-after-{why}",
                            f"invalid {kind} probe accepted outside every real disable block ({where}; forest {_sig(trace['tree'])})",
                            trace)
        if depth > 0 and raised:
            raise Violation("disable/validation-on-inside-disable-block",
                            f"invalid {kind} probe refused inside a real disable block ({where}; forest {_sig(trace['tree'])})", trace)

    def body(nd: dict, d2: int, name: str):
        probe(d2, f"on entry of {name}")
        for i, ch in enumerate(nd["ch"]):
            node(ch, d2, f"{name}.{i}")

    def decorated_node(nd: dict, depth: int, name: str, via: dict, ek: str) -> int:
        """The block(s) of this node are entered by CALLING a decorated function; returns the number of levels."""
        levels = via["rec"] + 1
        if via["d"] >= 0:
            if not (0 <= via["d"] < len(shared)) or shared[via["d"]][0] != bool(nd["ig"]):
                raise HarnessError(f"node {name}: shared decorator {via['d']} does not exist / has another ignore flag")
            fn = shared[via["d"]][1][via["f"]]
            res.count("disable:via:decorator-object-shared")
            if not nd["ig"] and (via["d"] in active or levels > 1):
                st_["reentered"] = True
                res.count("disable:real-decorator-object-entered-again-while-active")
        else:
            fn = _decorate(V.disable_message_validation(ignore=nd["ig"]))  # defined and decorated on the spot
            res.count("disable:via:decorator-object-own")
            if not nd["ig"] and levels > 1:
                st_["reentered"] = True
                res.count("disable:real-decorator-object-entered-again-while-active")
        res.count(f"disable:decorated-call-depth:{levels}")
        marker = _make_exit(ek) if ek else None

        def d_at(level: int) -> int:  # real blocks around the code of recursion level `level` (outermost call = via['rec'])
            return depth + (0 if nd["ig"] else levels - level)

        def enter(level: int):
            if level > 0:
                probe(d_at(level), f"on entry of {name}, call {levels - level} of {levels}")
                return
            body(nd, d_at(0), name)
            if marker is not None:
                raise marker  # propagates through every level of the recursion

        def back(level: int):
            probe(d_at(level), f"in {name}, call {levels - level} of {levels} after the inner call returned")

        active.append(via["d"])
        try:
            fn(levels - 1, enter, back)
        except BaseException as e:
            if e is not marker:
                raise
        finally:
            active.pop()
        return levels

    def node(nd: dict, depth: int, name: str):
        d2 = depth + (0 if nd["ig"] else 1)
        ek = _exit_kind(nd)
        via = nd.get("via")
        if via:
            if ek in GEN_EXITS:
                raise HarnessError(f"node {name}: a generator exit needs a with statement")
            decorated_node(nd, depth, name, via, ek)
        elif ek in GEN_EXITS:
            def g():
                with V.disable_message_validation(ignore=nd["ig"]):
                    body(nd, d2, name)
                    if (yield 1) != "leave":
                        raise HarnessError("generator resumed")  # only gen-finish resumes it: the block is then left normally
                yield 2

            gen = g()
            next(gen)  # runs the block body; Violation / HarnessError from it propagate to the caller
            if ek == "gen-close":
                gen.close()
            elif ek == "gen-finish":
                gen.send("leave")
            else:
                del gen  # last reference: CPython finalises (closes) the generator right here
        elif ek:
            marker = _make_exit(ek)
            try:
                with V.disable_message_validation(ignore=nd["ig"]):
                    body(nd, d2, name)
                    raise marker
            except BaseException as e:  # only OUR exception is swallowed; Violation/HarnessError/anything else goes on
                if e is not marker:
                    raise
        else:
            with V.disable_message_validation(ignore=nd["ig"]):
                body(nd, d2, name)
        if not via:
            res.count("disable:via:with-statement")
        if ek and not nd["ig"]:
            st_["last_abnormal"] = ek
        cls_ = "normal" if not ek else "exception" if ek in ORDINARY_EXITS else "generator" if ek in GEN_EXITS else "baseexception"
        res.count(f"disable:exit:{'ignore' if nd['ig'] else 'real'}:{cls_}")
        if ek:
            res.count(f"disable:exit-kind:{ek}")
        probe(depth, f"after {ek or 'normal'} exit of {name}")

    try:
        probe(0, "before any block")
        for i, nd in enumerate(trace["tree"]):
            node(nd, 0, str(i))
    finally:
        _reset_validation()
    sig = _sig(trace["tree"])
    if "!" in sig or st_["reentered"]:
        res.shape("dis", sig, kind)
        if "!" in sig:
            res.count("nontrivial:disable-forest-with-exception-exit")
        if st_["reentered"]:
            res.count("nontrivial:disable-forest-with-decorator-object-entered-again-while-active")
            res.sample({"disable-forest-decorators": sig, "shared-decorators-ignore": trace.get("decos", []), "probe": kind}, limit=5)
        else:
            res.sample({"disable-forest": sig, "probe": kind}, limit=5)


class _Yield:
    def __await__(self):
        yield


def _suspendable(kind: str, ignore: bool):
    """A generator / hand-driven coroutine that enters a disable block, suspends INSIDE it, leaves it when resumed,
    suspends once more outside and finishes at the next resume."""
    if kind == "gen":
        def g():
            with V.disable_message_validation(ignore=ignore):
                yield "in"
            yield "out"

        return g()

    async def co():
        with V.disable_message_validation(ignore=ignore):
            await _Yield()
        await _Yield()

    return co()


KEY_SUSPENDED = "disable/validation-off-while-generator-suspended-in-block"
KEY_INTERLEAVED = "disable/validation-off-after-suspended-generators-left-their-blocks"


def run_suspended_case(trace: dict, res: Result):
    """The caller is never inside a disable block itself: each of its probe stores must be validated, whatever
    generators / coroutines are suspended (inside or outside their own disable block), finished or closed."""
    _reset_validation()
    kind = trace["probe"]
    gens = [dict(g, obj=None, state="new") for g in trace["gens"]]
    sig = []

    def probe(where: str):
        try:
            _probe_assign(kind)
            raised = False
        except HarnessError:
            raise
        except Exception:
            raised = True
        inside = [i for i, g in enumerate(gens) if g["state"] == "in" and not g["ig"]]
        res.count(f"suspended:probe:{'generator-inside-block' if inside else 'no-generator-inside-block'}:{'raised' if raised else 'silent'}")
        sig.append("P*" if inside else "P")
        if not raised:
            story = " ".join(sig)
            if inside:
                raise Violation(KEY_SUSPENDED, f"invalid {kind} probe accepted in the caller (which is in no disable block) while "
                                f"{gens[inside[0]]['kind']} #{inside[0]} is suspended inside its disable block ({where}; ops {story})", trace)
            raise Violation(KEY_INTERLEAVED, f"invalid {kind} probe accepted in the caller although no generator/coroutine is inside a "
                            f"disable block any more ({where}; ops {story})", trace)

    def step(g):
        try:
            g["obj"].send(None)
            return True
        except StopIteration:
            return False

    try:
        for op in trace["ops"]:
            if op[0] == "probe":
                probe(f"op {len(sig)}")
                continue
            g = gens[op[1]]
            sig.append(f"{op[0]}{op[1]}{'i' if g['ig'] else 'r'}{g['kind'][0]}")
            if op[0] == "start" and g["state"] == "new":
                g["obj"] = _suspendable(g["kind"], g["ig"])
                step(g)
                g["state"] = "in"
            elif op[0] == "resume" and g["state"] in ("in", "out"):
                g["state"] = "out" if (step(g) and g["state"] == "in") else "done"
            elif op[0] == "close" and g["state"] in ("in", "out"):
                g["obj"].close()
                g["state"] = "done"
            else:
                raise HarnessError(f"op {op} in state {g['state']}")
        for g in gens:  # finish: everything is closed, then validation must certainly be in force
            if g["state"] in ("in", "out"):
                g["obj"].close()
                g["state"] = "done"
        sig.append("end")
        probe("after every generator was finished or closed")
    finally:
        for g in gens:
            if g["obj"] is not None:
                try:
                    g["obj"].close()
                except Exception:
                    pass
        _reset_validation()
    story = " ".join(sig)
    if "P*" in story or (len(gens) > 1 and any(x.startswith("resume") or x.startswith("close") for x in sig)):
        res.shape("susp", story, kind)
        res.count("nontrivial:caller-store-with-suspended-or-interleaved-generators")
        res.sample({"suspended-generators": story, "probe": kind}, limit=5)


# -- execution contexts: threads, copied contexts, asyncio tasks ----------------------------------
#
# The harness owns the schedule: every actor (a real thread, or an asyncio task on a private event loop driven by the
# harness thread) executes exactly one operation when it is handed the baton and hands it back; nothing ever runs
# concurrently, so a case is deterministic.  WATCHDOG_S only turns a stuck hand-over into a harness error.

WATCHDOG_S = 30.0
CTX_EXITS = ["ValueError", "StopIteration", "KeyboardInterrupt", "SystemExit", "GeneratorExit", "CancelledError", "CustomBaseException"]
MAX_THREADS, MAX_TASKS, MAX_COPIES = 4, 3, 4
KEY_THREAD = "contexts/validation-off-in-thread-inside-no-block"
KEY_SEPARATE = "contexts/validation-off-in-separate-context-inside-no-block"
KEY_DERIVED = "contexts/validation-off-in-context-derived-inside-since-left-block"
KEY_ON_INSIDE = "contexts/validation-on-inside-own-disable-block"

# kind -> (family class, field, out-of-domain value that ctypes itself stores silently, in-domain value for step n)
_CTX_FIELDS = {
    "int": ("FAM_SCALARS", "i8", lambda n: 200, lambda n: n % 100),
    "byte": ("FAM_SCALARS", "by", lambda n: 256, lambda n: n % 200),
    "farr": ("FAM_ARR3", "f32_a", lambda n: [0.0, 1e39, 0.0], lambda n: [1.0, float(n % 50), 0.5]),
    "struct": ("FAM_STRUCTS", "st", lambda n: (), lambda n: _small(n)),
}


def _small(n: int):
    s = msgs.FAMILY["FS_SMALL"]()
    s._a = n % 100  # through the ctypes field: the value does not depend on the validators under test
    return s


def _ctx_probe(kind: str, msg, n: int) -> dict:
    """An out-of-domain store followed by an in-domain store on msg, executed wherever the caller is."""
    _cls, name, bad, good = _CTX_FIELDS[kind]
    fi = msgs.field(type(msg), name)
    before = bytes(msg)
    o = {"raised": None, "changed": False, "good_raised": None, "good_back": True}
    try:
        setattr(msg, name, bad(n))
    except HarnessError:
        raise
    except Exception as e:
        o["raised"] = type(e).__name__
    o["changed"] = bytes(msg) != before
    g = good(n)
    want = bytes(g) if kind == "struct" else g
    try:
        setattr(msg, name, g)
    except HarnessError:
        raise
    except Exception as e:
        o["good_raised"] = f"{type(e).__name__}: {e}"
    else:
        try:
            o["good_back"] = _model_equal(fi, msgs.read_field(msg, fi), want)
        except Exception as e:
            o["good_back"] = False
            o["good_raised"] = f"read back: {e!r}"
    return o


def _ctx_program(prog, kind: str, msg, n: int, fn=None) -> list:
    """What `Context.run` executes: a probe, and with prog = [ignore, exit kind] also a block of its own that is entered
    and left inside this one run, probed inside and afterwards."""
    obs = [("", _ctx_probe(kind, msg, n))]
    if prog is not None:
        marker = _make_exit(prog[1]) if prog[1] else None

        def inside():
            obs.append(("inside", _ctx_probe(kind, msg, n + 1)))
            if marker is not None:
                raise marker

        try:
            if fn is not None:  # the block is entered by calling a decorated function (shared by the whole case)
                fn(inside)
            else:
                with V.disable_message_validation(ignore=prog[0]):
                    inside()
        except BaseException as e:
            if e is not marker:
                raise
        obs.append(("after", _ctx_probe(kind, msg, n + 2)))
    return obs


def _decorate_call(deco):
    """A function decorated with `deco` (disable_message_validation(...) used as a decorator) that runs the given thunk."""

    @deco
    def call(thunk):
        return thunk()

    return call


def _exec_simple(cmd):
    """Operations that do not block: executed by whoever holds the baton, in its own context."""
    op = cmd[0]
    if op == "probe":
        return _ctx_probe(*cmd[1:])
    if op == "copy":
        return contextvars.copy_context()
    if op == "run":
        return cmd[1].run(_ctx_program, *cmd[2:])
    if op == "tstart":
        cmd[1].start()
        return None
    raise HarnessError(f"unknown actor command {cmd[0]}")


class _Stop(BaseException):
    pass


class _ThreadActor:
    """A real thread that executes one command per hand-over; `with` blocks are real with statements on its stack."""

    def __init__(self, name: str):
        self.name, self.cmd, self.result, self.error = name, None, None, None
        self.go, self.done = threading.Semaphore(0), threading.Semaphore(0)
        self.stopping = False
        self.thread = threading.Thread(target=self._main, name=f"verif-c09-{name}", daemon=True)

    # -- harness side
    def start(self):  # called by the creating actor (a new thread starts in an empty context)
        self.thread.start()

    def wait(self):
        if not self.done.acquire(timeout=WATCHDOG_S):
            raise HarnessError(f"thread actor {self.name} did not hand the baton back")
        if self.error is not None:
            raise HarnessError(f"thread actor {self.name} failed: {self.error!r}") from self.error

    def call(self, cmd):
        self.cmd, self.result = cmd, None
        self.go.release()
        self.wait()
        return self.result

    def finish(self):
        if self.thread.ident is None:
            return
        if self.thread.is_alive() and not self.stopping:
            self.stopping = True
            self.cmd = ("stop",)
            self.go.release()
        self.thread.join(WATCHDOG_S)
        if self.thread.is_alive():
            raise HarnessError(f"thread actor {self.name} could not be joined")

    # -- thread side
    def _next(self):
        self.done.release()
        if not self.go.acquire(timeout=4 * WATCHDOG_S):
            raise _Stop()
        return self.cmd

    def _main(self):
        try:
            self._body(0)
        except _Stop:
            pass
        except BaseException as e:  # reported by the harness as a harness error
            self.error = e
        finally:
            self.done.release()

    def _body(self, depth: int) -> str:
        while True:
            if self.stopping:
                return ""
            cmd = self._next()
            op = cmd[0]
            if op == "enter":
                box = []

                def inside():
                    ek = self._body(depth + 1)
                    if ek:
                        box.append(_make_exit(ek))
                        raise box[0]

                try:
                    if len(cmd) > 2 and cmd[2] is not None:  # a decorated function: the call enters the block
                        cmd[2](inside)
                    else:
                        with V.disable_message_validation(ignore=cmd[1]):
                            inside()
                except BaseException as e:
                    if not box or e is not box[0]:
                        raise
            elif op == "leave":
                if depth == 0:
                    raise HarnessError("leave without a block")
                return cmd[1]
            elif op == "stop":
                self.stopping = True
            else:
                self.result = _exec_simple(cmd)


class _TaskActor:
    """An asyncio task on the case's private event loop (which the harness thread drives); its context is the copy
    asyncio took when the task was created."""

    def __init__(self, name: str, loop):
        self.name, self.loop, self.result, self.error = name, loop, None, None
        self.ack, self.fut, self.task = loop.create_future(), None, None
        self.stopping = False

    # -- harness side
    def start(self):  # called by the creating actor: a task of the loop, or the harness itself
        self.task = self.loop.create_task(self._main())

    def wait(self):
        if not self.ack.done():
            h = self.loop.call_later(WATCHDOG_S, self.loop.stop)
            try:
                self.loop.run_until_complete(self.ack)
            except RuntimeError as e:
                raise HarnessError(f"task actor {self.name} did not hand the baton back: {e}")
            finally:
                h.cancel()
        if self.error is not None:
            raise HarnessError(f"task actor {self.name} failed: {self.error!r}") from self.error

    def call(self, cmd):
        self.result = None
        self.ack = self.loop.create_future()
        self.fut.set_result(cmd)
        self.wait()
        return self.result

    def finish(self):
        if self.task is None or self.task.done():
            return
        self.stopping = True
        if self.fut is not None and not self.fut.done():
            self.ack = self.loop.create_future()
            self.fut.set_result(("stop",))
        h = self.loop.call_later(WATCHDOG_S, self.loop.stop)
        try:
            self.loop.run_until_complete(self.task)
        except RuntimeError as e:
            raise HarnessError(f"task actor {self.name} could not be finished: {e}")
        finally:
            h.cancel()

    # -- task side
    async def _next(self):
        self.fut = self.loop.create_future()
        if not self.ack.done():
            self.ack.set_result(None)
        return await self.fut

    async def _main(self):
        try:
            await self._body(0)
        except BaseException as e:
            self.error = e
        finally:
            if not self.ack.done():
                self.ack.set_result(None)

    async def _body(self, depth: int) -> str:
        while True:
            if self.stopping:
                return ""
            cmd = await self._next()
            op = cmd[0]
            if op == "enter":
                marker = None
                try:
                    with V.disable_message_validation(ignore=cmd[1]):
                        ek = await self._body(depth + 1)
                        if ek:
                            marker = _make_exit(ek)
                            raise marker
                except BaseException as e:
                    if e is not marker:
                        raise
            elif op == "leave":
                if depth == 0:
                    raise HarnessError("leave without a block")
                return cmd[1]
            elif op == "stop":
                self.stopping = True
            elif op == "spawn":
                cmd[1].start()
            else:
                self.result = _exec_simple(cmd)


class _Blk:
    __slots__ = ("real", "open", "owner", "seq", "via")

    def __init__(self, real: bool, owner: str, seq: int, via: int = 0):
        self.real, self.open, self.owner, self.seq, self.via = real, True, owner, seq, via


class _EC:
    """Model of one execution context: the blocks that were open in the context it was derived from at that moment
    (`inherited`) and the blocks it entered itself (`own`, innermost last)."""

    def __init__(self, name: str, kind: str, inherited=()):
        self.name, self.kind, self.inherited, self.own = name, kind, list(inherited), []
        self.actor = self.ctx = self.msg = None

    def open_chain(self):
        return [b for b in self.inherited + self.own if b.real and b.open]

    def own_open(self):
        return [b for b in self.own if b.real and b.open]

    def inherited_open(self):
        return [b for b in self.inherited if b.open]


def run_contexts_case(trace: dict, res: Result):
    _reset_validation()
    kind, sub = trace["probe"], trace["sub"]
    mcls = msgs.FAMILY[_CTX_FIELDS[kind][0]]
    shared = mcls()
    ecs = {"main": _EC("main", "main")}
    threads, tasks, copies = [], [], []
    st_ = {"loop": None, "n": 0, "overlap": False}
    sig = []
    flags = set()
    inherit = bool(getattr(sys.flags, "thread_inherit_context", 0))  # interpreters whose new threads copy the starter's context
    decos, fns = {}, {}

    def deco_fn(ig: bool, via: int):
        """via 0: a with statement (None); 1 / 2: one of the two functions decorated with THE decorator object the case
        keeps per ignore flag - every thread and every Context.run program that uses it calls the same function object."""
        if not via:
            return None
        if via not in (1, 2):
            raise HarnessError(f"contexts: unknown way of entering a block {via!r}")
        if ig not in decos:
            decos[ig] = V.disable_message_validation(ignore=ig)
        if (ig, via) not in fns:
            fns[(ig, via)] = _decorate_call(decos[ig])
        return fns[(ig, via)]

    def note_via(ig: bool, via: int):
        res.count(f"{sub}:block-entered-through:{'decorated-function' if via else 'with-statement'}")
        if via and not ig and any(b.open and b.real and b.via for e in ecs.values() for b in e.own):
            flags.add("one-decorator-object-entered-again-while-active")
            res.count(f"{sub}:real-decorator-object-entered-again-while-active")

    def story():
        return " ".join(sig)

    def need(cond, op):
        if not cond:
            raise HarnessError(f"contexts: illegal op {op} ({story()})")

    def loop():
        if st_["loop"] is None:
            st_["loop"] = asyncio.new_event_loop()
        return st_["loop"]

    def msg_of(ec, use_shared):
        if use_shared:
            return shared
        if ec.msg is None:
            ec.msg = mcls()
        return ec.msg

    def do(ec, cmd):
        return _exec_simple(cmd) if ec.kind == "main" else ec.actor.call(cmd)

    def others_inside(ec):
        return sorted({b.owner for e in ecs.values() if e is not ec for b in e.own_open()})

    def judge(ec, o, where, runner=None, prog_real=False, use_shared=False):
        """o: observation of one probe executed in context ec (through Context.run by `runner` if given)."""
        runner_open = runner.own_open() if runner is not None else []
        if prog_real or ec.own_open():
            expect = "off"
        elif ec.inherited_open() or runner_open:
            expect = "dc"
        else:
            expect = "on"
        res.count(f"{sub}:probe:{ec.kind}:{'must-validate' if expect == 'on' else 'own-block' if expect == 'off' else 'not-judged'}:"
                  f"{'raised' if o['raised'] else 'silent'}")
        if use_shared:
            res.count(f"{sub}:probe-on-shared-message")
        desc = f"invalid {kind} store by {ec.name}" + (f" run by {runner.name}" if runner is not None else "") + f" ({where}; ops {story()})"
        if o["raised"] and o["changed"]:
            raise Violation("contexts/refused-store-changed-bytes", f"{desc}: raised {o['raised']} but the message bytes changed", trace)
        if expect == "off" and o["raised"]:
            raise Violation(KEY_ON_INSIDE, f"{desc}: refused inside a real disable block of its own", trace)
        if expect != "on":
            return
        oth = others_inside(ec)
        if oth:
            flags.add("store-outside-while-another-context-is-inside-a-block")
        if st_["overlap"]:
            flags.add("store-after-overlapping-blocks-of-two-contexts")
        if ec.inherited:
            flags.add("store-in-context-derived-inside-a-since-left-block")
        elif ec.kind in ("copy", "task"):
            flags.add("store-in-context-derived-outside-every-block")
        if not o["raised"]:
            if ec.inherited:
                raise Violation(KEY_DERIVED, f"{desc}: accepted although every disable block that was open when this context was "
                                f"derived ({len(ec.inherited)}) has been left and it is inside no block of its own", trace)
            now = f"; inside a block right now: {', '.join(oth)}" if oth else "; nobody is inside a block right now"
            raise Violation(KEY_THREAD if ec.kind in ("main", "thread") else KEY_SEPARATE,
                            f"{desc}: accepted although this {ec.kind} is inside no disable block and was derived inside none{now}", trace)
        if o["good_raised"]:
            raise Violation("contexts/in-domain-store-refused", f"in-domain {kind} store by {ec.name} ({where}; ops {story()}): {o['good_raised']}", trace)
        if not o["good_back"]:
            raise Violation("contexts/in-domain-store-readback-mismatch", f"in-domain {kind} store by {ec.name} ({where}; ops {story()}) reads back differently", trace)

    def derive(parent, name, kind_):
        ec = _EC(name, kind_, parent.open_chain() if (kind_ != "thread" or inherit) else ())
        res.count(f"{sub}:derived:{kind_}:{min(len(parent.open_chain()), 2)}{'+' if len(parent.open_chain()) > 2 else ''}-blocks-open")
        ecs[name] = ec
        return ec

    def start_thread(parent):
        ec = derive(parent, f"t{len(threads)}", "thread")
        ec.actor = _ThreadActor(ec.name)
        threads.append(ec)
        do(parent, ("tstart", ec.actor))
        ec.actor.wait()
        return ec

    def apply(op):
        st_["n"] += 3
        n = st_["n"]
        what = op[0]
        res.count(f"{sub}:op:{what}")
        if what == "run":
            need(0 <= op[1] < len(copies) and op[2] in ecs and ecs[op[2]].kind in ("main", "thread"), op)
            ec, runner, prog, ush = copies[op[1]], ecs[op[2]], op[3], bool(op[4])
            pvia = prog[2] if prog is not None and len(prog) > 2 else 0
            sig.append(f"{ec.name}>{runner.name}" + ("" if prog is None else "[" + ("I" if prog[0] else "R") + (f"@{pvia}" if pvia else "")
                                                     + ("!" + prog[1] if prog[1] else "") + "]"))
            if prog is not None:
                note_via(bool(prog[0]), pvia)
            obs = do(runner, ("run", ec.ctx, prog, kind, msg_of(ec, ush), n, deco_fn(bool(prog[0]), pvia) if prog is not None else None))
            for where, o in obs:
                judge(ec, o, f"Context.run, {where or 'directly'}", runner=None if runner.kind == "main" else runner,
                      prog_real=(where == "inside" and not prog[0]), use_shared=ush)
            return
        need(op[1] in ecs and ecs[op[1]].kind in ("main", "thread", "task"), op)
        ec = ecs[op[1]]
        if what == "enter":
            need(ec.kind != "main", op)
            via = op[3] if len(op) > 3 else 0
            need(not via or ec.kind == "thread", op)  # a decorated coroutine function would leave the block before it runs
            sig.append(f"{ec.name}+{'I' if op[2] else 'R'}" + (f"@{via}" if via else ""))
            if not op[2] and others_inside(ec):
                flags.add("blocks-of-two-contexts-open-at-once")
            note_via(bool(op[2]), via)
            ec.actor.call(("enter", bool(op[2]), deco_fn(bool(op[2]), via)))
            ec.own.append(_Blk(not op[2], ec.name, n, via))
        elif what == "leave":
            need(ec.kind != "main" and ec.own and ec.own[-1].open, op)
            need(op[2] == "" or op[2] in CTX_EXITS, op)
            sig.append(f"{ec.name}-" + ("!" + op[2] if op[2] else ""))
            b = ec.own.pop()
            ec.actor.call(("leave", op[2]))
            b.open = False
            if b.real:
                res.count(f"{sub}:leave:{'exception' if op[2] else 'normal'}")
                if any(x.real and x.open and x.seq > b.seq for e in ecs.values() if e is not ec for x in e.own):
                    st_["overlap"] = True  # a block another context entered later is still open: the two are not nested
        elif what == "probe":
            sig.append(f"{ec.name}?")
            o = do(ec, ("probe", kind, msg_of(ec, bool(op[2])), n))
            judge(ec, o, "own stack", use_shared=bool(op[2]))
        elif what == "copy":
            need(len(copies) < MAX_COPIES, op)
            new = derive(ec, f"c{len(copies)}", "copy")
            sig.append(f"{new.name}=copy@{ec.name}")
            new.ctx = do(ec, ("copy",))
            copies.append(new)
        elif what == "spawn":
            need(ec.kind in ("main", "task") and len(tasks) < MAX_TASKS, op)
            new = derive(ec, f"a{len(tasks)}", "task")
            sig.append(f"{new.name}=task@{ec.name}")
            new.actor = _TaskActor(new.name, loop())
            tasks.append(new)
            if ec.kind == "main":
                new.actor.start()
            else:
                ec.actor.call(("spawn", new.actor))
            new.actor.wait()
        elif what == "tstart":
            need(ec.kind in ("main", "thread") and len(threads) < MAX_THREADS, op)
            sig.append(f"t{len(threads)}=thread@{ec.name}")
            start_thread(ec)
        else:
            raise HarnessError(f"unknown op {op}")

    try:
        need(1 <= trace["threads"] <= MAX_THREADS, "threads")
        for _ in range(trace["threads"]):
            start_thread(ecs["main"])
        for op in trace["ops"]:
            apply(op)
        # epilogue: every actor leaves its blocks (normally, innermost first) and ends; every thread is joined; then nothing
        # is inside a block anywhere and every context that still exists must validate
        for ec in threads + tasks:
            ec.actor.finish()
            if ec.actor.error is not None:
                raise HarnessError(f"actor {ec.name} failed: {ec.actor.error!r}") from ec.actor.error
            for b in ec.own:
                b.open = False
            ec.own.clear()
        sig.append("end")
        st_["n"] += 3
        judge(ecs["main"], _exec_simple(("probe", kind, shared, st_["n"])), "after every actor ended", use_shared=True)
        for ec in copies:
            st_["n"] += 3
            for where, o in _exec_simple(("run", ec.ctx, None, kind, msg_of(ec, False), st_["n"])):
                judge(ec, o, "Context.run after every actor ended")
        ec = start_thread(ecs["main"])  # a thread born after everything
        judge(ec, ec.actor.call(("probe", kind, shared, st_["n"] + 3)), "fresh thread after every actor ended", use_shared=True)
        ec.actor.finish()
    finally:
        errs = []
        for ec in threads + tasks:
            try:
                if ec.actor is not None:
                    ec.actor.finish()
            except BaseException as e:  # noqa
                errs.append(e)
        if st_["loop"] is not None:
            try:
                st_["loop"].close()
            except BaseException as e:  # noqa
                errs.append(e)
        _reset_validation()
        if errs and sys.exc_info()[0] is None:
            raise HarnessError(f"contexts: cleanup failed: {errs[0]!r}")
    for f in sorted(flags):
        res.count("nontrivial:" + f)
    if flags:
        res.shape("ctx", story(), kind)
        res.count(f"nontrivial:{sub}-schedule")
        res.sample({f"{sub}-schedule": story(), "probe": kind}, limit=6)


def run_case(trace: dict, res: Result):
    if trace["sub"] in ("suspended", "interleaved"):
        run_suspended_case(trace, res)
    elif trace["sub"] in ("threads", "contexts"):
        run_contexts_case(trace, res)
    elif trace["sub"] == "disable":
        run_disable_case(trace, res)
    else:
        run_assign_case(trace, res)


# ------------------------------------------------------------------------------------------------
# strategies


@functools.lru_cache(maxsize=8192)
def _elem_bad(fi: FI):
    k = fi.kind
    if k in ("int", "iarr"):
        return st.one_of(msgs.int_out(fi.code), msgs.int_out(fi.code), msgs.int_wrongtype())
    if k in ("float", "farr"):
        return st.one_of(msgs.float_out(fi.code), msgs.float_out(fi.code), msgs.float_wrongtype())
    if k in ("byte",):
        return st.one_of(msgs.byte_out(), msgs.byte_wrongtype())
    if k == "bytes":
        return st.one_of(msgs.int_out("byte"), msgs.byte_wrongtype())
    if k == "char":
        return st.one_of(msgs.char_out(), msgs.str_wrongtype())
    if k == "str":
        return st.one_of(msgs.str_out(fi.n), msgs.str_wrongtype())
    if k in ("struct", "sarr"):
        return msgs.struct_wrong(fi.scls)
    raise HarnessError(k)


@functools.lru_cache(maxsize=8192)
def _elem_dc(fi: FI):
    k = fi.kind
    if k in ("int", "iarr", "byte", "bytes"):
        return msgs.int_dc()
    if k in ("float", "farr"):
        return msgs.float_dc()
    if k == "char":
        return msgs.char_dc()
    if k == "str":
        return msgs.str_dc()
    return None


@functools.lru_cache(maxsize=8192)
def _elem_in(fi: FI):
    if fi.kind == "str":
        return msgs.str_in(fi.n, nul=True)
    return msgs.elem_in(fi)


_SLICE_PART = st.one_of(st.none(), st.integers(-12, 12))
_SLICE_STEP = st.sampled_from([None, None, 1, 2, 3, -1, -2, -3])


@st.composite
def _array_source(draw, ccls: type, fi: FI):
    """Another message's bound array: compatible (same class/field) or incompatible (any other array field)."""
    if draw(st.integers(0, 2)) > 0:
        src_cls, sfi = ccls, fi
    else:
        pool = [ccls] + [msgs.FAMILY[f"FAM_ARR{n}"] for n in msgs.ARRAY_LENS] + [msgs.FAMILY["FAM_STRUCTS"], msgs.FAMILY["FAM_SCALARS"]]
        src_cls = draw(st.sampled_from(pool))
        cands = [f for f in msgs.fields_of(src_cls) if f.kind in ARRAY_KINDS]
        if not cands:
            src_cls, sfi = ccls, fi
        else:
            sfi = draw(st.sampled_from(cands))
    init = draw(st.none() | msgs.seq_in(sfi, sfi.n))
    if init is not None and ("b" in init or "ba" in init):
        init = enc(list(dec(init)))
    if sfi.kind == "farr" and draw(st.integers(0, 3)) == 0:
        # the source holds infinity at one position (written through the raw ctypes field, as received bytes would be)
        vals = list(dec(init)) if init is not None else [0.0] * sfi.n
        vals[draw(st.integers(0, sfi.n - 1))] = draw(st.sampled_from([float("inf"), float("-inf")]))
        init = enc(vals)
    return {"A": msgs.ref_of(src_cls), "f": sfi.name, "init": init, "sl": None}


_INT_SRC = st.sampled_from(msgs.INT_CODES)
_ANY_SRC = st.sampled_from(msgs.INT_CODES + msgs.INT_CODES + msgs.FLOAT_CODES)
_SMALL_INT = st.integers(0, 100)
_SMALL_FLT = st.sampled_from([0.0, -0.0, 1.0, -1.5, 0.1, 3.0e38, -3.0e38, 1e-45, 16777217.0])


def _src_edges(src: str, fi: FI):
    """Values a ctypes array of element type `src` can hold: (in the target's domain, outside it)."""
    if src in msgs.INT_CODES:
        lo, hi = msgs.INT_RANGE[src]
        cand = [lo, lo + 1, hi - 1, hi, hi // 2 + 1, -1, 0, 1, 127, 128, 255, 256, 32767, 32768, 65535, 65536,
                2 ** 31 - 1, 2 ** 31, 2 ** 32 - 1, 2 ** 32, 2 ** 63 - 1, 2 ** 63, -128, -129, -32768, -32769, -(2 ** 31), -(2 ** 31) - 1]
        cand = sorted({c for c in cand if lo <= c <= hi})
    elif src == "f32":
        cand = [0.0, -0.0, 1.0, 0.5, msgs.FLT_MAX, -msgs.FLT_MAX, 1e-45, float("inf"), float("-inf"), 100.0, -1.0]
    else:
        cand = [0.0, -0.0, 1.0, 0.5, msgs.FLT_MAX, -msgs.FLT_MAX, msgs.FLT_UNDER_OVER, msgs.FLT_OVER, -msgs.FLT_OVER, 1e39, -1e39,
                msgs.DBL_MAX, -msgs.DBL_MAX, 5e-324, float("inf"), float("-inf"), 100.0]
    good = [c for c in cand if msgs.classify_elem(fi, c, True)[0] == "in"]
    bad = [c for c in cand if msgs.classify_elem(fi, c, True)[0] == "out"]
    return good, bad


@st.composite
def _ctypes_array(draw, fi: FI, L: int):
    """{"C": code, "v": [...]}: a ctypes array of a drawn element type; all valid, one bad element at a drawn
    position, NaN neighbours for float sources, or a wrong length."""
    src = draw(_ANY_SRC if fi.kind == "farr" or draw(st.integers(0, 7)) == 0 else _INT_SRC)
    good, bad = _src_edges(src, fi)
    mode = draw(st.sampled_from(["valid", "valid", "one-bad", "one-bad", "one-bad", "wrong-len"]))
    n = L
    if mode == "wrong-len":
        n = draw(st.sampled_from(sorted({max(0, L - 1), L + 1, 0, L + 7} - {L})))
    base = _SMALL_FLT if src in msgs.FLOAT_CODES else _SMALL_INT
    fill = st.one_of(base, st.sampled_from(good)) if good else base
    vals = [draw(fill) for _ in range(min(n, 6))]
    if n > 6:
        f = draw(fill)
        vals = (vals + [f] * n)[:n] if draw(st.booleans()) else ([f] * n + vals)[-n:]
    if src in msgs.FLOAT_CODES and n and draw(st.integers(0, 3)) == 0:
        vals[draw(st.integers(0, n - 1))] = float("nan")
    if mode == "one-bad" and bad and n:
        vals[draw(st.integers(0, n - 1))] = draw(st.sampled_from(bad))
    return {"C": src, "v": [enc(x) for x in vals]}


_CS_VALUES = {
    "f32": [0.0, -0.0, 1.0, -1.5, 0.1, msgs.FLT_MAX, -msgs.FLT_MAX, 1e-45, float("inf"), float("-inf"), 1e39, -1e39, float("nan")],
    "f64": [0.0, -0.0, 1.0, -1.5, 0.1, msgs.DBL_MAX, 5e-324, 1e39, msgs.FLT_OVER, float("inf"), float("-inf"), float("nan")],
    "char": [bytes([x]) for x in (0, 1, 65, 97, 127, 128, 200, 233, 255)],
}


def _cs_values(code: str):
    if code in _CS_VALUES:
        return _CS_VALUES[code]
    lo, hi = msgs.INT_RANGE[code]
    return sorted({lo, hi, 0, 1, 5, 100, hi // 2 + 1})


@functools.lru_cache(maxsize=8192)
def _ctypes_scalar(fi: FI):
    """Scalar ctypes instances as a value form: of the field's own ctype (in range by construction - except +-inf / NaN in
    c_float/c_double and a non-ASCII c_char), of a wider/narrower type, or of another kind."""
    k = fi.kind
    own = fi.code if k in ("int", "iarr", "float", "farr") else "byte" if k in ("byte", "bytes") else "char" if k == "char" else None
    alts = []
    if own is not None:
        vals = _cs_values(own)
        o = st.sampled_from(vals)
        if own not in _CS_VALUES:
            o = st.one_of(o, st.integers(*msgs.INT_RANGE[own]))
        own_st = o.map(lambda x: {"c": own, "v": enc(x)})
        alts += [own_st, own_st]
    codes = [c for c in msgs.CT if c != "byte" and c != own]
    alts.append(st.sampled_from(codes).flatmap(lambda c: st.sampled_from(_cs_values(c)).map(lambda x: {"c": c, "v": enc(x)})))
    return st.one_of(alts)


@st.composite
def _seq_value(draw, ccls: type, fi: FI, L: int, whole: bool):
    mode = draw(st.sampled_from(["valid", "valid", "one-bad", "one-bad", "one-bad", "dc-mix", "wrong-len", "not-a-seq", "source",
                                 "ctypes", "ctypes", "ctypes-elem"]))
    if mode == "ctypes-elem":  # an otherwise valid sequence with scalar ctypes instance(s) as element(s)
        if fi.kind not in ("iarr", "farr", "bytes") or L == 0:
            mode = "one-bad"
        else:
            seq = draw(msgs.seq_in(fi, L))
            if "l" not in seq and "u" not in seq:
                seq = enc(list(dec(seq)))
            tag = "l" if "l" in seq else "u"
            elems = list(seq[tag])
            for _ in range(draw(st.integers(1, 2))):
                elems[draw(st.integers(0, L - 1))] = draw(_ctypes_scalar(fi))
            return {tag: elems}
    if mode == "ctypes":
        if fi.kind in ("iarr", "farr", "bytes"):
            v = draw(_ctypes_array(fi, L))
            if draw(st.integers(0, 3)) == 0:  # the same content as an array.array
                return {"arr": v["C"], "v": v["v"]}
            return v
        if fi.kind == "sarr" and draw(st.booleans()):  # a ctypes array whose element type is another struct class
            return draw(msgs.struct_wrong_ctypes_array(fi.scls, L))
        mode = "one-bad"
    if mode == "source" and not whole:
        mode = "one-bad"
    if mode == "source":
        return draw(_array_source(ccls, fi))
    if mode == "not-a-seq":
        alts = [enc(None), enc(0), enc(1.0), enc("a" * L), enc({})]
        return draw(st.sampled_from(alts))
    if mode == "wrong-len":
        L2 = draw(st.sampled_from(sorted({max(0, L - 1), L + 1, 0, 2 * L, L + 7} - {L})))
        return draw(msgs.seq_in(fi, L2))
    seq = draw(msgs.seq_in(fi, L))
    if L == 0 or mode == "valid":
        return seq
    if "l" not in seq and "u" not in seq:  # bytes form: keep as is for "valid", else turn into list
        seq = enc(list(dec(seq)))
    tag = "l" if "l" in seq else "u"
    elems = list(seq[tag])
    dcs = _elem_dc(fi)
    if mode == "dc-mix" or (dcs is not None and draw(st.booleans())):
        if dcs is not None:
            for _ in range(draw(st.integers(1, 2))):
                elems[draw(st.integers(0, L - 1))] = draw(dcs)
    if mode == "one-bad":
        pos = draw(st.integers(0, L - 1))
        elems[pos] = draw(_elem_bad(fi))
    return {tag: elems}


_VIEW = st.sampled_from([None, None, None, None] + VIEW_ORIGINS + ["inside-normal", "inside-exc"])


@st.composite
def _step(draw, cls: type, kinds: frozenset, prefill: bool = False):
    path, fi, ccls = msgs.pick_target(draw, cls, kinds)
    step = {"p": path, "f": fi.name, "form": "set", "k": None}
    if fi.kind not in ARRAY_KINDS:
        if prefill:
            step["v"] = draw(_elem_in(fi))
            return step
        alts = [_elem_in(fi), _elem_in(fi), _elem_bad(fi), _elem_bad(fi)]
        d = _elem_dc(fi)
        if d is not None:
            alts.append(d)
        if fi.kind != "struct":
            alts.append(_ctypes_scalar(fi))
        step["v"] = draw(st.one_of(alts))
        return step
    if prefill:
        step["v"] = draw(msgs.seq_in(fi, fi.n))
        return step
    form = draw(st.sampled_from(["set", "set", "item", "slice", "slice"]))
    step["form"] = form
    if form != "set":
        step["view"] = draw(_VIEW)
    if form == "set":
        step["v"] = draw(_seq_value(ccls, fi, fi.n, True))
        step = draw(_maybe_reuse(step, fi, fi.n))
    elif form == "item":
        step["k"] = draw(st.integers(-fi.n, fi.n - 1))
        alts = [_elem_in(fi), _elem_in(fi), _elem_bad(fi), _elem_bad(fi)]
        d = _elem_dc(fi)
        if d is not None:
            alts.append(d)
        if fi.kind == "bytes":
            alts.append(msgs.byte_in())
            alts.append(msgs.byte_out())
        if fi.kind in ("iarr", "farr", "bytes"):
            alts.append(_ctypes_scalar(fi))
        alts.append(st.sampled_from([enc([]), enc(()), enc([0]), enc((0,)), enc(b""), enc(b"ab")]))
        step["v"] = draw(st.one_of(alts))
    else:
        k = [draw(_SLICE_PART), draw(_SLICE_PART), draw(_SLICE_STEP)]
        L = len(range(*slice(*k).indices(fi.n)))
        if L == 0 and draw(st.integers(0, 3)) > 0:
            k = [None, None, draw(st.sampled_from([None, 1, -1, 2]))]
            L = len(range(*slice(*k).indices(fi.n)))
        step["k"] = k
        step["v"] = draw(_seq_value(ccls, fi, L, False))
        step = draw(_maybe_reuse(step, fi, L))
    return step


@st.composite
def _maybe_reuse(draw, step: dict, fi: FI, L: int):
    """With probability 1/3 turn a whole-array / slice store into: store the same (mutable) object first with valid
    content of the right length, mutate it in place into the drawn content, store it again (the judged store)."""
    v = step["v"]
    if not isinstance(v, dict) or not ({"l", "u", "ba", "C", "arr"} & set(v)) or draw(st.integers(0, 2)) > 0:
        return step
    if "u" in v:
        v = step["v"] = {"l": v["u"]}
    if "l" in v:
        first = draw(msgs.seq_in(fi, L))
        first = first if "l" in first else {"l": first["u"]} if "u" in first else enc(list(dec(first)))
    elif "ba" in v:
        first = enc(bytearray(draw(st.binary(min_size=L, max_size=L))))
    else:
        tag = "C" if "C" in v else "arr"
        small = 1.5 if v[tag] in msgs.FLOAT_CODES else draw(st.integers(0, 100))
        first = {tag: v[tag], "v": [enc(small)] * len(v["v"])}
    step["re"] = {"first": first, "other": draw(st.booleans())}
    return step


@st.composite
def assign_case(draw, group: str):
    kinds = GROUPS[group]
    ref = draw(msgs.class_ref(kinds))
    cls = msgs.resolve(ref)
    steps = []
    if draw(st.booleans()):
        steps.append(draw(_step(cls, kinds, prefill=True)))
    for _ in range(draw(st.integers(1, 2))):
        steps.append(draw(_step(cls, kinds)))
    return {"sub": group, "cls": ref, "steps": steps}


_EXIT = st.one_of(st.just(""), st.just(""), st.sampled_from(ORDINARY_EXITS), st.sampled_from(BASE_EXITS), st.sampled_from(BASE_EXITS),
                  st.sampled_from(GEN_EXITS))


def _node(depth: int):
    ch = st.just([]) if depth <= 0 else st.lists(st.deferred(lambda: _node(depth - 1)), max_size=3)
    return st.builds(lambda ig, exc, c: {"ig": ig, "exc": exc, "ch": c}, st.booleans(), _EXIT, ch)


@st.composite
def suspended_case(draw, sub: str):
    """Ops on 1-2 generators / coroutines; in the 'interleaved' campaign the caller only probes while none of them is
    suspended inside a REAL disable block (so the known leak of a suspended block does not mask what happens afterwards)."""
    gens = [{"ig": draw(st.integers(0, 3)) == 0, "kind": draw(st.sampled_from(["gen", "gen", "coro"]))}
            for _ in range(draw(st.integers(1, 2)) if sub == "suspended" else 2)]
    state = ["new"] * len(gens)
    ops = []
    for _ in range(draw(st.integers(1, 9))):
        cand = []
        for i, stt in enumerate(state):
            if stt == "new":
                cand.append(["start", i])
            elif stt in ("in", "out"):
                cand += [["resume", i], ["resume", i], ["close", i]]
        inside = any(stt == "in" and not g["ig"] for stt, g in zip(state, gens))
        if sub == "suspended" or not inside:
            cand += [["probe"], ["probe"]]
        if not cand:
            break
        op = draw(st.sampled_from(cand))
        ops.append(op)
        if op[0] == "start":
            state[op[1]] = "in"
        elif op[0] == "resume":
            state[op[1]] = "out" if state[op[1]] == "in" else "done"
        elif op[0] == "close":
            state[op[1]] = "done"
    return {"sub": sub, "gens": gens, "ops": ops, "probe": draw(st.sampled_from(["int", "byte", "farr", "struct"]))}


_CTX_EXIT = st.one_of(st.just(""), st.just(""), st.sampled_from(CTX_EXITS))
_CTX_PROG = st.one_of(st.none(), st.tuples(st.booleans(), _CTX_EXIT).map(list),
                      st.tuples(st.booleans(), _CTX_EXIT, st.sampled_from([1, 1, 2])).map(list))
_IGNORE = st.sampled_from([False, False, False, True])


@st.composite
def contexts_case(draw, sub: str):
    """A schedule over 2-4 real threads, 0-3 asyncio tasks of one private loop and 0-4 copied contexts.  The strategy
    keeps the same model as the executor (who exists, which blocks everyone is in) so that only legal operations are
    drawn.  Campaign 'threads' derives contexts (copy_context, tasks, threads) only where the deriving actor is inside no
    real block - every context then has to validate unless it is inside a block of its OWN; campaign 'contexts' also
    derives them inside blocks, so that they are used while those blocks are still open and after they were left."""
    nthr = draw(st.integers(2, 3))
    stack = {"main": []}  # actor -> ignore flags of the blocks it is in
    for i in range(nthr):
        stack[f"t{i}"] = []
    ntask = ncopy = 0
    ops = []
    for _ in range(draw(st.integers(2, 20))):
        # actors that are inside a block, and tasks (which come into being late), get the baton more often
        names = [n for n in stack for _w in range((1 if n == "main" else 4 if n[0] == "a" else 2) + (2 if stack[n] else 0))]
        who = names[draw(st.integers(0, len(names) - 1))]
        free = sub == "contexts" or all(stack[who])  # may derive a context here
        nthreads = len([n for n in stack if n[0] == "t"])
        acts = ["probe", "probe"]
        if who != "main":
            if len(stack[who]) < 3:
                acts += ["enter", "enter"]
            if stack[who]:
                acts += ["leave", "leave", "leave"]
        if free and ncopy < MAX_COPIES:
            acts += ["copy"] if all(stack[who]) else ["copy", "copy"]
        if who[0] != "a" and ncopy:
            acts += ["run", "run"]
        if free and who[0] != "t" and ntask < MAX_TASKS:
            acts += ["spawn", "spawn"] if not ntask or not all(stack[who]) else ["spawn"]
        if free and who[0] == "t" and nthreads < MAX_THREADS:
            acts.append("tstart")
        act = draw(st.sampled_from(acts))
        if act == "probe":
            ops.append(["probe", who, draw(_BOOL)])
        elif act == "copy":
            ops.append(["copy", who])
            ncopy += 1
        elif act == "enter":
            ig = draw(_IGNORE)
            # threads also enter blocks by calling one of two functions decorated with the case's one decorator object
            via = draw(st.sampled_from([0, 0, 1, 1, 2])) if who[0] == "t" else 0
            ops.append(["enter", who, ig, via] if via else ["enter", who, ig])
            stack[who].append(ig)
        elif act == "leave":
            ops.append(["leave", who, draw(_CTX_EXIT)])
            stack[who].pop()
        elif act == "run":
            ops.append(["run", draw(st.integers(0, ncopy - 1)), who, draw(_CTX_PROG), draw(_BOOL)])
        elif act == "spawn":
            ops.append(["spawn", who])
            stack[f"a{ntask}"] = []
            ntask += 1
        else:
            ops.append(["tstart", who])
            stack[f"t{nthreads}"] = []
    return {"sub": sub, "threads": nthr, "ops": ops, "probe": draw(st.sampled_from(["int", "byte", "farr", "struct"]))}


_BOOL = st.booleans()


_DECO_EXIT = st.one_of(st.just(""), st.just(""), st.sampled_from(ORDINARY_EXITS), st.sampled_from(BASE_EXITS))


@st.composite
def _deco_forest(draw):
    """A forest in which blocks are also entered by CALLING functions decorated with `@disable_message_validation(...)`:
    0-2 decorator objects shared by the case, each applied to two functions (nodes below a node that uses one mostly use
    the same one: a function calling itself or its sibling), decorator objects of their own, recursion depth 1-3, mixed
    with with statements (and generators suspended in a with block) in any nesting."""
    decos = draw(st.lists(_IGNORE, min_size=1, max_size=2))

    def node(depth: int, above):
        c = draw(st.integers(0, 9))
        via = None
        if above is not None and c < 6:
            via = {"d": above["d"], "f": draw(st.integers(0, 1)), "rec": 0}  # calls itself / its sibling
        elif c < 7:
            via = {"d": draw(st.integers(0, len(decos) - 1)), "f": draw(st.integers(0, 1)), "rec": 0}
        elif c < 8:
            via = {"d": -1, "f": 0, "rec": 0}
        if via is not None:
            via["rec"] = draw(st.sampled_from([0, 0, 0, 1, 1, 2]))
            ig = decos[via["d"]] if via["d"] >= 0 else draw(_IGNORE)
            exc = draw(_DECO_EXIT)
        else:
            ig, exc = draw(st.booleans()), draw(_EXIT)
        nxt = via if via is not None and via["d"] >= 0 else above
        ch = [node(depth - 1, nxt) for _ in range(draw(st.integers(0, 3 if depth > 1 else 2)))] if depth > 0 else []
        nd = {"ig": ig, "exc": exc, "ch": ch}
        if via is not None:
            nd["via"] = via
        return nd

    tree = [node(3, None) for _ in range(draw(st.integers(1, 3)))]
    return {"decos": decos, "tree": tree}


def disable_case():
    probe = st.sampled_from(["int", "byte", "farr", "struct"])
    plain = st.builds(lambda tree, p: {"sub": "disable", "tree": tree, "probe": p}, st.lists(_node(3), min_size=1, max_size=4), probe)
    deco = st.builds(lambda f, p: {"sub": "disable", "decos": f["decos"], "tree": f["tree"], "probe": p}, _deco_forest(), probe)
    return st.one_of(plain, deco)


# ------------------------------------------------------------------------------------------------


def shard(seed: int, n_assign: int, n_disable: int) -> Result:
    res = Result()
    for gi, group in enumerate(GROUPS):
        hyp_run(lambda t: run_case(t, res), assign_case(group), seed * 16 + gi, n_assign, res)
    hyp_run(lambda t: run_case(t, res), disable_case(), seed * 16 + 15, n_disable, res)
    # own campaigns, so that a finding here (one is a known open one) cannot hide anything in the forest campaign
    hyp_run(lambda t: run_case(t, res), suspended_case("suspended"), seed * 16 + 14, max(1, n_disable // 2), res)
    hyp_run(lambda t: run_case(t, res), suspended_case("interleaved"), seed * 16 + 13, max(1, n_disable // 2), res)
    # real threads / asyncio tasks / copied contexts in lock-step; two campaigns for the same reason
    n_ctx = max(1, n_disable * 2 // 3)
    hyp_run(lambda t: run_case(t, res), contexts_case("threads"), seed * 16 + 12, n_ctx, res)
    hyp_run(lambda t: run_case(t, res), contexts_case("contexts"), seed * 16 + 11, n_ctx, res)
    _reset_validation()
    return res


def run(ctx: RunContext) -> int:
    t0 = time.time()
    n_assign = ctx.scale(300, 5000)
    n_disable = ctx.scale(300, 5000)
    res = run_shards(shard, [(derive_seed(ctx.seed, i), n_assign, n_disable) for i in range(16)])
    return conclude(ctx, res, RULE, ASSUME, t0)


def replay_trace(trace: dict) -> None:
    """Re-execute one concrete case without Hypothesis; raises Violation if the property still fails."""
    try:
        run_case(trace, Result())
    finally:
        _reset_validation()
