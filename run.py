#!/venv/bin/python
"""Entry point of every registered check:  /venv/bin/python run.py <ID> --tier quick|thorough [--replay FILE]

Exit 0: property held on everything explored (KNOWN-FINDING lines allowed)
Exit 1: `VIOLATION property=<id> replay=<path>` printed for a violation not listed in KNOWN_FINDINGS.txt
Exit 2: harness error (never a verdict about pyrtma)
"""
import argparse
import importlib
import json
import os
import subprocess
import sys
import time
import traceback

HERE = os.path.dirname(os.path.abspath(__file__))


def _bootstrap():
    # deterministic hashing: re-exec once with PYTHONHASHSEED=0
    if os.environ.get("PYTHONHASHSEED") != "0":
        env = dict(os.environ)
        env["PYTHONHASHSEED"] = "0"
        os.execve(sys.executable, [sys.executable] + sys.argv, env)
    repo = os.environ.get("VERIF_REPO", "/repo")
    src = os.path.join(repo, "src")
    if not os.path.isdir(os.path.join(src, "pyrtma")):
        print(f"harness error: {src}/pyrtma not found", file=sys.stderr)
        sys.exit(2)
    sys.path.insert(0, src)
    sys.path.insert(0, HERE)
    deps = os.path.join(HERE, ".deps")
    if os.path.isdir(deps):
        sys.path.append(deps)
    os.environ.setdefault("PIP_NO_INDEX", "1")
    sys.dont_write_bytecode = True


def ensure_hypothesis():
    try:
        import hypothesis  # noqa
    except ImportError:
        deps = os.path.join(HERE, ".deps")
        subprocess.run(
            [sys.executable, "-m", "pip", "install", "-q", "--no-index", "--find-links", "/opt/veriftools/wheels",
             "--target", deps, "hypothesis"],
            check=False, stdout=subprocess.DEVNULL, stderr=subprocess.DEVNULL,
        )
        if deps not in sys.path:
            sys.path.append(deps)
        import hypothesis  # noqa


def main():
    _bootstrap()
    ap = argparse.ArgumentParser()
    ap.add_argument("prop")
    ap.add_argument("--tier", default=os.environ.get("VERIF_TIER", "quick"), choices=["quick", "thorough"])
    ap.add_argument("--seed", type=int, default=None)
    ap.add_argument("--replay", default=None)
    args = ap.parse_args()
    seed = args.seed if args.seed is not None else int(os.environ.get("VERIF_SEED", "1") or 1)
    prop = args.prop.upper()
    try:
        ensure_hypothesis()
        from vlib.common import RunContext, HarnessError

        import pyrtma  # noqa: F401  (must come from VERIF_REPO)

        want = os.path.realpath(os.path.join(os.environ.get("VERIF_REPO", "/repo"), "src"))
        got = os.path.realpath(os.path.dirname(os.path.dirname(pyrtma.__file__)))
        if want != got:
            raise HarnessError(f"pyrtma imported from {got}, expected {want}")
        sys.excepthook = sys.__excepthook__
        mod = importlib.import_module(f"checks.{prop.lower()}")
        ctx = RunContext(prop=prop, tier=args.tier, seed=seed, replay=args.replay)
        from vlib.common import Violation

        if args.replay:
            with open(args.replay) as f:
                body = json.load(f)
            try:
                mod.replay_trace(body["trace"])
                print("replay: property held")
                rc = 0
            except Violation as v:
                print(f"VIOLATION property={prop} replay={args.replay}\n  key={v.key}\n  what={v.what}")
                rc = 1
        else:
            # regression tier: committed replays of confirmed (and repaired) defects run first
            import glob

            # (each in a forked child: whatever a replay leaves behind in the tested package - caches, registries,
            # class attributes - must not reach the campaign shards, which are forked from this process)
            for path in sorted(glob.glob(os.path.join(HERE, "replays", f"{prop}-*.json"))):
                with open(path) as f:
                    body = json.load(f)
                r, w = os.pipe()
                pid = os.fork()
                if pid == 0:
                    os.close(r)
                    try:
                        mod.replay_trace(body["trace"])
                        out = {"ok": True}
                    except Violation as v:
                        out = {"ok": False, "key": v.key, "what": v.what}
                    except BaseException as e:  # noqa
                        out = {"ok": None, "err": f"{type(e).__name__}: {e}", "tb": traceback.format_exc()}
                    with os.fdopen(w, "w") as wf:
                        json.dump(out, wf)
                    os._exit(0)
                os.close(w)
                with os.fdopen(r) as rf:
                    txt = rf.read()
                os.waitpid(pid, 0)
                out = json.loads(txt) if txt.strip() else {"ok": None, "err": "replay child died without a result", "tb": ""}
                if out["ok"] is True:
                    ctx.regressions_ok += 1
                elif out["ok"] is False:
                    ctx.regressions.append((path, Violation(out["key"], out["what"], body["trace"])))
                else:
                    raise HarnessError(f"regression replay {os.path.basename(path)} failed to run: {out['err']}\n{out.get('tb', '')}")
            rc = mod.run(ctx)
        sys.stdout.flush()
        sys.stderr.flush()
        os._exit(int(rc))
    except SystemExit:
        raise
    except BaseException as e:  # noqa
        sys.stdout.flush()
        print(f"HARNESS-ERROR property={prop}: {type(e).__name__}: {e}", file=sys.stderr)
        traceback.print_exc()
        sys.stderr.flush()
        os._exit(2)


if __name__ == "__main__":
    main()
